package main

import (
	"fmt"
	"strconv"
	"strings"

	"github.com/shaardie/clemens/pkg/search"
	"github.com/shaardie/clemens/pkg/types"
	"verifharness/common"
)

// Case line: black plys wtime btime winc binc movestogo movetime
func init() {
	props["C08"] = common.Prop{Gen: c08gen, Run: c08run}
}

var c08clocks = []int{0, 1, 2, 9, 10, 11, 49, 50, 51, 55, 56, 99, 100, 101, 499, 500, 501, 999, 1000, 1001,
	5000, 59999, 60000, 300000, 999999, 1000000, 1000001, 1111112, 3600000, 86400000, 259200000, 1 << 39}

var c08huge = []int{1<<61 - 1, 1 << 60, 1<<60 + 1, 153722867280912930, 153722867280912931, 461168601842738790, 461168601842738791,
	1 << 57, 1<<58 - 1, 1 << 41, 1<<40 + 1}

func c08pick(r *common.Rng) int {
	switch r.Intn(5) {
	case 0:
		return c08clocks[r.Intn(len(c08clocks))]
	case 4:
		// far beyond any real clock: products and sums wrap in int64 (the model writes the wraps out; TimeMore.v proves
		// the bounds for every int64 input). Kept below 2^61 so that the OCaml driver's native ints hold every value.
		if r.Chance(1, 4) {
			return c08huge[r.Intn(len(c08huge))]
		}
		return int(r.U64() % (1 << 61))
	case 1:
		return r.Intn(2000)
	case 2:
		return r.Intn(1 << 22)
	default:
		return int(r.U64() % (1 << 40))
	}
}

func c08gen(r *common.Rng, n int, shard int, out *common.Out) {
	if shard == 0 {
		// regression corpus first (D4 witnesses)
		out.Line("0 0 100 0 5000 0 0 0")
		out.Line("0 0 500 0 0 0 0 5000")
		out.Line("1 0 0 100 0 5000 0 0")
		out.Line("1 37 7 100 9 5000 3 0")
		// grid on the small table
		for _, black := range []int{0, 1} {
			for _, t := range c08clocks {
				for _, inc := range []int{0, 1, 100, 5000, 1 << 30} {
					for _, mt := range []int{0, 1, 50, 5000} {
						for _, ply := range []int{0, 1, 79, 80, 81, 600} {
							w, b, wi, bi := t, 12345, inc, 77
							if black == 1 {
								w, b, wi, bi = 12345, t, 77, inc
							}
							out.Line("%d %d %d %d %d %d %d %d", black, ply, w, b, wi, bi, 0, mt)
						}
					}
				}
			}
		}
	}
	for i := 0; i < n; i++ {
		mt := 0
		if r.Chance(1, 4) {
			mt = c08pick(r)
		}
		mtg := 0
		if r.Chance(1, 3) {
			mtg = r.Intn(80)
		}
		out.Line("%d %d %d %d %d %d %d %d", r.Intn(2), r.Intn(700), c08pick(r), c08pick(r), c08pick(r), c08pick(r), mtg, mt)
	}
}

func c08parse(line string) (types.Color, int, search.SearchParameter) {
	f := strings.Fields(line)
	v := make([]int, len(f))
	for i := range f {
		v[i], _ = strconv.Atoi(f[i])
	}
	sp := search.SearchParameter{WTime: v[2], BTime: v[3], WInc: v[4], BInc: v[5], MovesToGo: v[6], MoveTime: v[7]}
	return types.Color(v[0]), v[1], sp
}

func c08run(cases []string, obs, oracle *common.Out) {
	for _, line := range cases {
		side, plys, sp := c08parse(line)
		got := search.VerifCalculateTime(side, plys, sp)
		obs.Line("%d", got)
		// The property itself, on the implementation only.
		t, mover := sp.WTime, "wtime"
		if side == types.BLACK {
			t, mover = sp.BTime, "btime"
		}
		verdict := "OK"
		if t > 0 && got >= t {
			verdict = fmt.Sprintf("FAIL budget %d >= %s %d", got, mover, t)
		} else if sp.MoveTime > 0 && got >= sp.MoveTime {
			verdict = fmt.Sprintf("FAIL budget %d >= movetime %d", got, sp.MoveTime)
		} else {
			// independence from the opponent's clock and increment
			sp2 := sp
			if side == types.BLACK {
				sp2.WTime, sp2.WInc = sp.WTime*3+17, sp.WInc+999
			} else {
				sp2.BTime, sp2.BInc = sp.BTime*3+17, sp.BInc+999
			}
			if g2 := search.VerifCalculateTime(side, plys, sp2); g2 != got {
				verdict = fmt.Sprintf("FAIL budget depends on the opponent's clock: %d vs %d", got, g2)
			}
		}
		oracle.Line("%s", verdict)
	}
}
