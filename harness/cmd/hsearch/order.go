package main

import (
	"fmt"
	"sort"
	"strconv"
	"strings"

	"github.com/shaardie/clemens/pkg/move"
	"github.com/shaardie/clemens/pkg/position"
	"github.com/shaardie/clemens/pkg/search"
	"verifharness/common"
	"verifharness/poslib"
)

// Key ORDER (C19). Case: "<fen> | <captures 0/1> <ply> <pv> <tt> <k0> <k1> | src:dst:val,... | src:dst:move,..."
// Observable: "S:<scored list> V:<visit order of the SortIndex sweep>" (encoded moves incl. score bits).
func init() { props["ORDER"] = common.Prop{Gen: orderGen, Run: orderRun} }

func orderGen(r *common.Rng, n int, shard int, out *common.Out) {
	starts := poslib.StartPositions()
	cnt := 0
	for cnt < n {
		si := r.Intn(len(starts))
		if r.Chance(1, 2) {
			si = r.Intn(2)
		}
		poslib.Playout(r, starts[si], 5+r.Intn(100), r.Chance(1, 2), func(p *position.Position, legal []move.Move, _ move.Move) bool {
			if !r.Chance(1, 3) {
				return true
			}
			caps := r.Chance(1, 4)
			var gen []move.Move
			if caps {
				gen = poslib.Captures(p)
			} else {
				gen = poslib.PseudoLegal(p)
			}
			pick := func() uint32 {
				if len(gen) == 0 || r.Chance(1, 5) {
					return 0
				}
				m := uint32(gen[r.Intn(len(gen))])
				if r.Chance(1, 4) {
					m |= uint32(r.Intn(1200)) << 16 // moves remembered by the search carry score bits
				}
				return m
			}
			var hist, ctr []string
			for k := 0; k < r.Intn(12); k++ {
				if len(gen) == 0 {
					break
				}
				m := gen[r.Intn(len(gen))]
				v := r.Intn(99)
				if r.Chance(1, 6) {
					v = 65530 + r.Intn(6)
				}
				hist = append(hist, fmt.Sprintf("%d:%d:%d", m.GetSourceSquare(), m.GetTargetSquare(), v))
			}
			for k := 0; k < r.Intn(4); k++ {
				if len(gen) == 0 {
					break
				}
				m := gen[r.Intn(len(gen))]
				cm := uint32(m)
				if r.Chance(1, 3) {
					cm = pick()
				}
				ctr = append(ctr, fmt.Sprintf("%d:%d:%d", m.GetSourceSquare(), m.GetTargetSquare(), cm))
			}
			c := 0
			if caps {
				c = 1
			}
			out.Line("%s | %d %d %d %d %d %d | %s | %s", p.ToFen(), c, r.Intn(40), pick(), pick(), pick(), pick(),
				strings.Join(hist, ","), strings.Join(ctr, ","))
			cnt++
			return cnt < n
		})
	}
}

func orderRun(cases []string, obs, oracle *common.Out) {
	for _, line := range cases {
		parts := strings.Split(line, " | ")
		p, err := position.NewFromFen(strings.TrimSpace(parts[0]))
		if err != nil {
			obs.Line("badfen")
			oracle.Line("OK")
			continue
		}
		f := strings.Fields(parts[1])
		v := make([]uint64, len(f))
		for i := range f {
			v[i], _ = strconv.ParseUint(f[i], 10, 64)
		}
		h := search.VerifHeuristics{History: map[[2]uint8]uint16{}, Counter: map[[2]uint8]move.Move{}}
		h.Killers = [2]move.Move{move.Move(v[4]), move.Move(v[5])}
		parse := func(s string, fn func(a, b uint8, c uint64)) {
			for _, e := range strings.Split(strings.TrimSpace(s), ",") {
				x := strings.Split(e, ":")
				if len(x) != 3 {
					continue
				}
				a, _ := strconv.Atoi(x[0])
				b, _ := strconv.Atoi(x[1])
				c, _ := strconv.ParseUint(x[2], 10, 64)
				fn(uint8(a), uint8(b), c)
			}
		}
		parse(parts[2], func(a, b uint8, c uint64) { h.History[[2]uint8{a, b}] = uint16(c) })
		parse(parts[3], func(a, b uint8, c uint64) { h.Counter[[2]uint8{a, b}] = move.Move(c) })
		verdict := "OK"
		res := common.Protect(func() string {
			ml := move.NewMoveList()
			if v[0] == 1 {
				p.GeneratePseudoLegalCaptures(ml)
			} else {
				p.GeneratePseudoLegalMoves(ml)
			}
			var before []int
			for i := uint8(0); i < ml.Length(); i++ {
				before = append(before, int(uint32(*ml.Get(i))&0xffff))
			}
			search.VerifScoreMoves(p, ml, move.Move(v[2]), move.Move(v[3]), uint8(v[1]), h)
			var scored, visit []string
			var after []int
			for i := uint8(0); i < ml.Length(); i++ {
				scored = append(scored, fmt.Sprint(uint32(*ml.Get(i))))
			}
			last := 1 << 20
			for i := uint8(0); i < ml.Length(); i++ {
				ml.SortIndex(i)
				m := *ml.Get(i)
				visit = append(visit, fmt.Sprint(uint32(m)))
				after = append(after, int(uint32(m)&0xffff))
				if int(m.GetScore()) > last && verdict == "OK" {
					verdict = fmt.Sprintf("FAIL [C19] visit %d has score %d after a move with score %d", i, m.GetScore(), last)
				}
				last = int(m.GetScore())
			}
			sort.Ints(before)
			sort.Ints(after)
			if fmt.Sprint(before) != fmt.Sprint(after) && verdict == "OK" {
				verdict = fmt.Sprintf("FAIL [C19] visited moves %v are not a permutation of the generated moves %v", after, before)
			}
			return "S:" + strings.Join(scored, ",") + " V:" + strings.Join(visit, ",")
		})
		if res == "panic" && poslib.NaiveInv(p) == "" {
			verdict = "FAIL [C19] move ordering panics on a legal position"
		}
		obs.Line("%s", res)
		oracle.Line("%s", verdict)
	}
}
