package main

import (
	"fmt"
	"strings"

	"github.com/shaardie/clemens/pkg/move"
	"github.com/shaardie/clemens/pkg/position"
	"verifharness/common"
	"verifharness/poslib"
)

// Key SEARCHDEEP: single searches of depth 4..6 from positions of uniformly random playouts, judged by the
// oracle of SEARCH alone (no model side: the extracted model is some hundred times slower than the engine,
// so searches of this size are affordable only on the implementation). Defects of the search that need a few
// plies of tree to show (a stale principal-variation tail, a missed poll deep in the tree) are looked for here;
// the case format and the runner are those of SEARCH.
func init() { props["SEARCHDEEP"] = common.Prop{Gen: searchDeepGen, Run: searchRun} }

func searchDeepGen(r *common.Rng, n int, shard int, out *common.Out) {
	spec := func(start, moves string, depth, cancel int) string {
		return fmt.Sprintf("%s|%s|%d|%d", start, moves, depth, cancel)
	}
	starts := poslib.StartPositions()
	cnt := 0
	for cnt < n {
		if r.Chance(1, 4) {
			if fen, ok := poslib.MotifPosition(r); ok {
				out.Line("%s", spec(fen, "", 3+r.Intn(3), -1))
				cnt++
			}
			continue
		}
		si := 0
		if r.Chance(1, 3) {
			si = r.Intn(len(starts))
		}
		startName := "startpos"
		if si > 0 {
			startName = poslib.CuratedFens[si-1]
		}
		var moves []string
		stopAt := 4 + r.Intn(90)
		pos := poslib.Playout(r, starts[si], stopAt, false, func(p *position.Position, legal []move.Move, m move.Move) bool {
			if m == move.NullMove {
				return false
			}
			moves = append(moves, m.String())
			return true
		})
		if poslib.NaiveInv(&pos) != "" || !poslib.MaterialOK(&pos) || len(poslib.Legal(&pos)) == 0 || len(poslib.Legal(&pos)) > 60 {
			continue
		}
		depth := 4 + r.Intn(2)
		if len(poslib.Legal(&pos)) < 12 && r.Chance(1, 2) {
			depth = 6
		}
		cancel := -1
		if r.Chance(1, 4) {
			cancel = 50 + r.Intn(20000)
		}
		out.Line("%s", spec(startName, strings.Join(moves, " "), depth, cancel))
		cnt++
	}
}
