package main

import (
	"fmt"
	"strings"

	"github.com/shaardie/clemens/pkg/evaluation"
	"github.com/shaardie/clemens/pkg/move"
	"github.com/shaardie/clemens/pkg/position"
	"github.com/shaardie/clemens/pkg/types"
	"verifharness/common"
	"verifharness/poslib"
)

// Key SEE (C18). Case: a FEN. Observable: "move=value" for every legal non-en-passant capture,
// in generation order.
func init() { props["SEE"] = common.Prop{Gen: seeGen, Run: seeRun} }

func seeGen(r *common.Rng, n int, shard int, out *common.Out) {
	if shard == 0 {
		for _, f := range poslib.CuratedFens {
			out.Line("%s", f)
		}
		// batteries, x-rays through pawns and sliders, king as last defender
		for _, f := range []string{
			"1k1r4/1pp4p/p7/4p3/8/P5P1/1PP4P/2K1R3 w - - 0 1",
			"1k1r3q/1ppn3p/p4b2/4p3/8/P2N2P1/1PP1R1BP/2K1Q3 w - - 0 1",
			"4k3/8/2n1b3/3p4/4P3/5B2/6Q1/4K3 w - - 0 1",
			"3r2k1/3r4/3r4/3p4/8/3R4/3R4/3R2K1 w - - 0 1",
			"6k1/8/8/3p4/4K3/8/8/8 w - - 0 1",
			"4k3/8/3q4/3p4/4K3/8/8/8 w - - 0 1",
			"k7/8/5b2/4p3/3K4/2B5/8/8 w - - 0 1",
			"7k/q7/1b6/2p5/3P4/4B3/5Q2/6K1 w - - 0 1",
		} {
			out.Line("%s", f)
		}
	}
	starts := poslib.StartPositions()
	cnt := 0
	for cnt < n {
		si := r.Intn(len(starts))
		if r.Chance(2, 3) {
			si = r.Intn(7)
		}
		poslib.Playout(r, starts[si], 10+r.Intn(120), r.Chance(1, 3), func(p *position.Position, legal []move.Move, _ move.Move) bool {
			nc := 0
			for _, m := range legal {
				if p.PiecesBoard[m.GetTargetSquare()] != types.NO_PIECE {
					nc++
				}
			}
			if nc >= 1 && r.Chance(1, 3) {
				out.Line("%s", p.ToFen())
				cnt++
			}
			return cnt < n
		})
	}
}

// ---- the reference the property describes, on a mailbox: least valuable attacker first (king
// last), attackers recomputed from scratch on the current board (so pieces behind join in), either
// side may stop, no legality, engine piece values.
func refAttackersLVA(board *[64]types.Piece, target int, side types.Color, values [6]int16) int {
	att := poslib.NaiveAttackers(board, target)
	best, bestRank := -1, 99
	for s := 0; s < 64; s++ {
		if att&(1<<uint(s)) == 0 || board[s].Color() != side {
			continue
		}
		rank := int(board[s].Type()) // pawn 0 < knight 1 < bishop 2 < rook 3 < queen 4 < king 5
		if rank < bestRank {
			best, bestRank = s, rank
		}
	}
	_ = values
	return best
}

// value of capturing on target with the piece on from, for the side making the capture
func refCapture(board [64]types.Piece, from, target int, values [6]int16) int {
	victim := int(values[board[target].Type()])
	mover := board[from]
	board[target] = mover
	board[from] = types.NO_PIECE
	opp := types.SwitchColor(mover.Color())
	reply := refAttackersLVA(&board, target, opp, values)
	if reply < 0 {
		return victim
	}
	r := refCapture(board, reply, target, values)
	if r < 0 {
		r = 0 // the opponent may stop
	}
	return victim - r
}

func sign(x int) int {
	if x < 0 {
		return -1
	}
	if x > 0 {
		return 1
	}
	return 0
}

func seeRun(cases []string, obs, oracle *common.Out) {
	values := evaluation.VerifConsts().PieceValue
	for _, line := range cases {
		p, err := position.NewFromFen(strings.TrimSpace(line))
		if err != nil {
			obs.Line("badfen")
			oracle.Line("OK")
			continue
		}
		legalPos := poslib.NaiveInv(p) == "" && poslib.MaterialOK(p)
		verdict := "OK"
		res := common.Protect(func() string {
			var items []string
			for _, m := range poslib.Legal(p) {
				if m.GetMoveType() == move.EN_PASSANT || p.PiecesBoard[m.GetTargetSquare()] == types.NO_PIECE {
					continue
				}
				mm := m
				v := evaluation.StaticExchangeEvaluation(p, &mm)
				items = append(items, fmt.Sprintf("%s=%d", m.String(), v))
				if legalPos && verdict == "OK" {
					ref := refCapture(p.PiecesBoard, int(m.GetSourceSquare()), int(m.GetTargetSquare()), values)
					if sign(int(v)) != sign(ref) {
						verdict = fmt.Sprintf("FAIL [C18] capture %s: static exchange evaluation %d, minimax of the capture sequence %d", m.String(), v, ref)
					}
				}
			}
			return strings.Join(items, " ")
		})
		if res == "panic" && legalPos {
			verdict = "FAIL [C18] static exchange evaluation panics on a legal capture"
		}
		obs.Line("%s", res)
		oracle.Line("%s", verdict)
	}
}
