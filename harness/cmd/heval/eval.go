package main

import (
	"fmt"
	"strings"

	"github.com/shaardie/clemens/pkg/evaluation"
	"github.com/shaardie/clemens/pkg/move"
	"github.com/shaardie/clemens/pkg/position"
	"github.com/shaardie/clemens/pkg/types"
	"verifharness/common"
	"verifharness/poslib"
)

// Key EVAL (C15). Case: "<fen> ;; <mirrored fen>". Observable: score mid end base of both.
func init() { props["EVAL"] = common.Prop{Gen: evalGen, Run: evalRun} }

var evalCorpus = []string{
	"4k3/8/8/8/8/8/4P3/4K3 w - - 0 1",
	"4k3/8/8/8/8/8/4P3/4K3 w - - 100 80",
	"2QQQQ1Q/2QQQ3/8/8/8/8/k7/7K w - - 0 1",
	"k7/8/8/8/8/8/2qqq3/2qqqq1q/K7 b - - 0 1",
	"QQQQQQQQ/Q7/8/8/8/8/k7/7K b - - 0 1",
	"RRRRRRRR/RR6/8/8/8/8/k7/7K b - - 0 1",
	"NNNNNNNN/NN6/8/8/8/8/k7/7K b - - 0 1",
	"4k3/pppppppp/8/8/8/8/8/QQQQKQQQ w - - 0 1",
	// the most material legal chess allows one side (all eight pawns promoted to queens) against a bare king
	"7k/8/8/8/8/8/QNQQQRBN/KQQQQQRB w - - 0 1",
	"7k/8/8/8/8/8/QNQQQRBN/KQQQQQRB b - - 0 1",
}

// random material on an otherwise legal skeleton: promotion-heavy and sparse configurations
func randomMaterial(r *common.Rng) (string, bool) {
	var b [64]types.Piece
	wk, bk := r.Intn(64), r.Intn(64)
	if wk == bk || (abs(wk%8-bk%8) <= 1 && abs(wk/8-bk/8) <= 1) {
		return "", false
	}
	b[wk], b[bk] = types.WHITE_KING, types.BLACK_KING
	n := r.Intn(30)
	pawns := [2]int{}
	for i := 0; i < n; i++ {
		s := r.Intn(64)
		if b[s] != types.NO_PIECE {
			continue
		}
		c := r.Intn(2)
		t := r.Intn(5) // pawn..queen
		if r.Chance(1, 3) {
			t = 4
		}
		if t == 0 {
			if s < 8 || s >= 56 || pawns[c] >= 8 {
				continue
			}
			pawns[c]++
		}
		b[s] = types.NewPiece(types.Color(c), types.PieceType(t))
	}
	side := types.Color(r.Intn(2))
	fen := poslib.SimpleFen(&b, side, 0, 64, r.Intn(99), 1+r.Intn(60))
	p, err := position.NewFromFen(fen)
	if err != nil || poslib.NaiveInv(p) != "" {
		return "", false
	}
	return fen, true
}

func abs(x int) int {
	if x < 0 {
		return -x
	}
	return x
}

func evalGen(r *common.Rng, n int, shard int, out *common.Out) {
	emit := func(p *position.Position) { out.Line("%s ;; %s", p.ToFen(), poslib.MirrorFen(p)) }
	if shard == 0 {
		for _, f := range append(append([]string{}, evalCorpus...), poslib.CuratedFens...) {
			if p, err := position.NewFromFen(f); err == nil {
				emit(p)
			}
		}
	}
	starts := poslib.StartPositions()
	cnt := 0
	for cnt < n {
		if r.Chance(1, 4) {
			for k := 0; k < 20 && cnt < n; k++ {
				if fen, ok := randomMaterial(r); ok {
					p, _ := position.NewFromFen(fen)
					emit(p)
					cnt++
				}
			}
			continue
		}
		si := r.Intn(len(starts))
		if r.Chance(1, 2) {
			si = r.Intn(2)
		}
		poslib.Playout(r, starts[si], 10+r.Intn(200), r.Chance(1, 2), func(p *position.Position, _ []move.Move, _ move.Move) bool {
			if r.Chance(1, 4) {
				emit(p)
				cnt++
			}
			return cnt < n
		})
	}
}

func evalLine(p *position.Position) (string, int16) {
	s, m, e, b := evaluation.VerifEvalUncached(p)
	return fmt.Sprintf("%d %d %d %d", s, m, e, b), s
}

func evalRun(cases []string, obs, oracle *common.Out) {
	c := evaluation.VerifConsts()
	for _, line := range cases {
		parts := strings.Split(line, " ;; ")
		p, err1 := position.NewFromFen(strings.TrimSpace(parts[0]))
		q, err2 := position.NewFromFen(strings.TrimSpace(parts[1]))
		if err1 != nil || err2 != nil {
			obs.Line("badfen")
			oracle.Line("OK")
			continue
		}
		verdict := "OK"
		res := common.Protect(func() string {
			a, sa := evalLine(p)
			b, sbb := evalLine(q)
			if poslib.NaiveInv(p) == "" && poslib.MaterialOK(p) {
				if sa != sbb {
					verdict = fmt.Sprintf("FAIL [C15] score %d but the mirrored position scores %d", sa, sbb)
				} else if int(sa) >= int(c.INF)-c.MaxPlies || int(sa) <= -int(c.INF)+c.MaxPlies {
					verdict = fmt.Sprintf("FAIL [C15] static score %d lies in the range reserved for mate scores", sa)
				}
			}
			mat := " mat=0"
			if poslib.MaterialOK(p) {
				mat = " mat=1"
			}
			return a + " | " + b + " | mir=ok" + mat
		})
		if res == "panic" && poslib.NaiveInv(p) == "" && poslib.MaterialOK(p) {
			verdict = "FAIL [C15] evaluation panics on a legal position"
		}
		obs.Line("%s", res)
		oracle.Line("%s", verdict)
	}
}
