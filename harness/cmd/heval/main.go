// heval: harness for the properties anchored in pkg/evaluation (C15, C16, C18).
package main

import "verifharness/common"

var props = map[string]common.Prop{}

func main() { common.Main(props) }
