package main

import (
	"fmt"
	"strings"

	"github.com/shaardie/clemens/pkg/evaluation"
	"github.com/shaardie/clemens/pkg/move"
	"github.com/shaardie/clemens/pkg/position"
	"github.com/shaardie/clemens/pkg/types"
	"verifharness/common"
	"verifharness/poslib"
)

// Key CACHE (C16). Case: FENs separated by " ;; ", evaluated in this order through the cache
// (Evaluation) starting from an empty cache. Observable: the scores in order.
func init() { props["CACHE"] = common.Prop{Gen: cacheGen, Run: cacheRun} }

var cacheCorpus = []string{
	// D9 witnesses: the fifty-move draw score leaks through the cache in both directions
	"4k3/8/8/8/8/8/4P3/4K3 w - - 100 80 ;; 4k3/8/8/8/8/8/4P3/4K3 w - - 0 80",
	"4k3/8/8/8/8/8/4P3/4K3 w - - 0 80 ;; 4k3/8/8/8/8/8/4P3/4K3 w - - 100 80",
	"4k3/8/8/8/8/8/4P3/4K3 w - - 99 80 ;; 4k3/8/8/8/8/8/4P3/4K3 w - - 100 80 ;; 4k3/8/8/8/8/8/4P3/4K3 w - - 99 80",
	"r3k2r/8/8/8/8/8/8/R3K2R w KQkq - 0 1 ;; r3k2r/8/8/8/8/8/8/R3K2R w - - 0 1 ;; r3k2r/8/8/8/8/8/8/R3K2R w Kq - 0 1",
	"8/8/8/2k5/2pP4/8/B7/4K3 b - d3 0 3 ;; 8/8/8/2k5/2pP4/8/B7/4K3 b - - 0 3",
}

func twins(r *common.Rng, p *position.Position) []string {
	var res []string
	base := func(hmc int, castling int, ep int) string {
		return poslib.SimpleFen(&p.PiecesBoard, p.SideToMove, castling, ep, hmc, int(p.Ply)/2+1)
	}
	c, e := int(p.Castling), int(p.EnPassant)
	res = append(res, base(int(p.HalfMoveClock), c, e))
	for _, h := range []int{0, 99, 100, 101, 255, r.Intn(256)} {
		if r.Chance(1, 2) {
			res = append(res, base(h, c, e))
		}
	}
	if c != 0 {
		res = append(res, base(int(p.HalfMoveClock), 0, e))
		res = append(res, base(int(p.HalfMoveClock), c&r.Intn(16), e))
	}
	if e != 64 {
		res = append(res, base(int(p.HalfMoveClock), c, 64))
	}
	// the other side to move (legal when nobody is in check), and one square's occupant changed
	if !p.IsInCheck(types.WHITE) && !p.IsInCheck(types.BLACK) {
		res = append(res, poslib.SimpleFen(&p.PiecesBoard, 1-p.SideToMove, 0, 64, int(p.HalfMoveClock), int(p.Ply)/2+1))
	}
	for tries := 0; tries < 3; tries++ {
		b := p.PiecesBoard
		sq := r.Intn(64)
		pc := b[sq]
		if pc == types.NO_PIECE || pc == types.Piece(6) || pc == types.Piece(14) {
			continue
		}
		col := int(pc) / 8
		nt := []int{1, 2, 3, 4}[r.Intn(4)] // knight, bishop, rook, queen
		if r.Chance(1, 4) {
			b[sq] = types.NO_PIECE
		} else {
			b[sq] = types.Piece(col*8 + nt + 1)
		}
		fen := poslib.SimpleFen(&b, p.SideToMove, 0, 64, int(p.HalfMoveClock), int(p.Ply)/2+1)
		if q, err := position.NewFromFen(fen); err == nil && poslib.NaiveInv(q) == "" && poslib.MaterialOK(q) {
			res = append(res, fen)
		}
	}
	return res
}

// keyAimedTwins reads the Zobrist key table of the build and, for every piece key that is zero and every
// two piece keys that are equal (none in a sound table), builds two legal positions that differ in exactly
// those pieces and therefore share their hash: the evaluation cache must still tell them apart, so the
// pair is a candidate failing input for C16. Pawn keys of the back ranks are never used and are skipped.
func keyAimedTwins() []string {
	pieces, side, _, _ := position.VerifZobristKeys()
	type feat struct{ s, c, t int }
	byKey := map[uint64][]feat{}
	for s := 0; s < 64; s++ {
		for c := 0; c < 2; c++ {
			for t := 0; t < 6; t++ {
				if t == 0 && (s < 8 || s >= 56) {
					continue
				}
				byKey[pieces[s][c][t]] = append(byKey[pieces[s][c][t]], feat{s, c, t})
			}
		}
	}
	build := func(a, b []feat) string {
		// a, b: the pieces only the first / only the second position has; kings are added where needed
		kingOf := func(fs []feat, c int) int {
			for _, f := range fs {
				if f.t == 5 && f.c == c {
					return f.s
				}
			}
			return -1
		}
		for _, wk := range []int{4, 1, 22, 46, 60, 33} {
			for _, bk := range []int{60, 57, 38, 17, 4, 30} {
				for _, stm := range []types.Color{types.WHITE, types.BLACK} {
					var fens []string
					ok := true
					for _, fs := range [][]feat{a, b} {
						var board [64]types.Piece
						w, k := wk, bk
						if x := kingOf(fs, 0); x >= 0 {
							w = x
						} else if kingOf(a, 0) >= 0 || kingOf(b, 0) >= 0 {
							ok = false
						}
						if x := kingOf(fs, 1); x >= 0 {
							k = x
						} else if kingOf(a, 1) >= 0 || kingOf(b, 1) >= 0 {
							ok = false
						}
						board[w] = types.Piece(6)
						board[k] = types.Piece(14)
						if w == k {
							ok = false
						}
						for _, f := range fs {
							if f.t != 5 {
								if board[f.s] != types.NO_PIECE {
									ok = false
								}
								board[f.s] = types.Piece(f.c*8 + f.t + 1)
							}
						}
						fen := poslib.SimpleFen(&board, stm, 0, 64, 0, 1)
						p, err := position.NewFromFen(fen)
						if err != nil || poslib.NaiveInv(p) != "" || !poslib.MaterialOK(p) {
							ok = false
						}
						fens = append(fens, fen)
					}
					if ok {
						return fens[0] + " ;; " + fens[1] + " ;; " + fens[0]
					}
				}
			}
		}
		return ""
	}
	var res []string
	add := func(a, b []feat) {
		if len(res) < 60 {
			if c := build(a, b); c != "" {
				res = append(res, c)
			}
		}
	}
	for s := 0; s < 64; s++ { // deterministic order
		for c := 0; c < 2; c++ {
			for t := 0; t < 5; t++ {
				if t == 0 && (s < 8 || s >= 56) {
					continue
				}
				if pieces[s][c][t] == 0 {
					add([]feat{{s, c, t}}, nil)
				}
				for _, o := range byKey[pieces[s][c][t]] {
					if o.s > s || (o.s == s && (o.c > c || (o.c == c && o.t > t))) {
						add([]feat{{s, c, t}}, []feat{o})
					}
				}
			}
			for _, o := range byKey[pieces[s][c][5]] {
				if o.t == 5 && o.c == c && o.s > s {
					add([]feat{{s, c, 5}}, []feat{o})
				}
			}
		}
	}
	if side == 0 {
		res = append(res, "4k3/8/8/8/8/8/4P3/4K3 w - - 0 1 ;; 4k3/8/8/8/8/8/4P3/4K3 b - - 0 1 ;; 4k3/8/8/8/8/8/4P3/4K3 w - - 0 1")
	}
	return res
}

func cacheGen(r *common.Rng, n int, shard int, out *common.Out) {
	if shard == 0 {
		for _, s := range cacheCorpus {
			out.Line("%s", s)
		}
		for _, s := range keyAimedTwins() {
			out.Line("%s", s)
		}
	}
	starts := poslib.StartPositions()
	size := evaluation.VerifConsts().CacheSize
	for i := 0; i < n; i++ {
		// a pool of positions from a few playouts
		var pool []position.Position
		for g := 0; g < 1+r.Intn(3); g++ {
			poslib.Playout(r, starts[r.Intn(len(starts))], 20+r.Intn(150), r.Chance(1, 2), func(p *position.Position, _ []move.Move, _ move.Move) bool {
				pool = append(pool, *p)
				return true
			})
		}
		// a pool without a single acceptable position (e.g. every position of a playout from a curated
		// start with unreachable material) would make the selection loop below spin for ever: draw a new pool
		usable := false
		for k := range pool {
			if poslib.NaiveInv(&pool[k]) == "" && poslib.MaterialOK(&pool[k]) {
				usable = true
				break
			}
		}
		if !usable {
			i--
			continue
		}
		// same-slot collisions inside the pool are kept adjacent when they exist
		bySlot := map[uint64][]int{}
		for k := range pool {
			bySlot[pool[k].ZobristHash%size] = append(bySlot[pool[k].ZobristHash%size], k)
		}
		var seq []string
		ln := 20 + r.Intn(150)
		for len(seq) < ln {
			k := r.Intn(len(pool))
			p := &pool[k]
			if poslib.NaiveInv(p) != "" || !poslib.MaterialOK(p) {
				continue
			}
			switch r.Intn(4) {
			case 0: // a family of twins differing only in clock / rights / ep, shuffled
				tw := twins(r, p)
				for j := range tw {
					o := r.Intn(j + 1)
					tw[j], tw[o] = tw[o], tw[j]
				}
				seq = append(seq, tw...)
			case 1: // revisit
				seq = append(seq, p.ToFen(), p.ToFen())
			default:
				seq = append(seq, p.ToFen())
				for _, o := range bySlot[p.ZobristHash%size] {
					if o != k && pool[o].ZobristHash != p.ZobristHash {
						seq = append(seq, pool[o].ToFen(), p.ToFen())
					}
				}
			}
		}
		out.Line("%s", strings.Join(seq, " ;; "))
	}
}

func cacheRun(cases []string, obs, oracle *common.Out) {
	for _, line := range cases {
		evaluation.VerifCacheClear()
		var scores []string
		verdict := "OK"
		for i, fen := range strings.Split(line, " ;; ") {
			p, err := position.NewFromFen(strings.TrimSpace(fen))
			if err != nil {
				scores = append(scores, "badfen")
				continue
			}
			res := common.Protect(func() string { return fmt.Sprint(evaluation.Evaluation(p)) })
			scores = append(scores, res)
			if poslib.NaiveInv(p) == "" && poslib.MaterialOK(p) && verdict == "OK" {
				unc, _, _, _ := evaluation.VerifEvalUncached(p)
				if res != fmt.Sprint(unc) {
					verdict = fmt.Sprintf("FAIL [C16] evaluation %d of the sequence (%s) returns %s through the cache, %d without it", i, fen, res, unc)
				}
			}
		}
		_ = types.WHITE
		obs.Line("%s", strings.Join(scores, " "))
		oracle.Line("%s", verdict)
	}
}
