package main

import (
	"fmt"
	"strings"

	"github.com/shaardie/clemens/pkg/evaluation"
	"github.com/shaardie/clemens/pkg/move"
	"github.com/shaardie/clemens/pkg/position"
	"github.com/shaardie/clemens/pkg/types"
	"verifharness/common"
	"verifharness/poslib"
)

// Key CACHE (C16). Case: FENs separated by " ;; ", evaluated in this order through the cache
// (Evaluation) starting from an empty cache. Observable: the scores in order.
func init() { props["CACHE"] = common.Prop{Gen: cacheGen, Run: cacheRun} }

var cacheCorpus = []string{
	// D9 witnesses: the fifty-move draw score leaks through the cache in both directions
	"4k3/8/8/8/8/8/4P3/4K3 w - - 100 80 ;; 4k3/8/8/8/8/8/4P3/4K3 w - - 0 80",
	"4k3/8/8/8/8/8/4P3/4K3 w - - 0 80 ;; 4k3/8/8/8/8/8/4P3/4K3 w - - 100 80",
	"4k3/8/8/8/8/8/4P3/4K3 w - - 99 80 ;; 4k3/8/8/8/8/8/4P3/4K3 w - - 100 80 ;; 4k3/8/8/8/8/8/4P3/4K3 w - - 99 80",
	"r3k2r/8/8/8/8/8/8/R3K2R w KQkq - 0 1 ;; r3k2r/8/8/8/8/8/8/R3K2R w - - 0 1 ;; r3k2r/8/8/8/8/8/8/R3K2R w Kq - 0 1",
	"8/8/8/2k5/2pP4/8/B7/4K3 b - d3 0 3 ;; 8/8/8/2k5/2pP4/8/B7/4K3 b - - 0 3",
}

func twins(r *common.Rng, p *position.Position) []string {
	var res []string
	base := func(hmc int, castling int, ep int) string {
		return poslib.SimpleFen(&p.PiecesBoard, p.SideToMove, castling, ep, hmc, int(p.Ply)/2+1)
	}
	c, e := int(p.Castling), int(p.EnPassant)
	res = append(res, base(int(p.HalfMoveClock), c, e))
	for _, h := range []int{0, 99, 100, 101, 255, r.Intn(256)} {
		if r.Chance(1, 2) {
			res = append(res, base(h, c, e))
		}
	}
	if c != 0 {
		res = append(res, base(int(p.HalfMoveClock), 0, e))
		res = append(res, base(int(p.HalfMoveClock), c&r.Intn(16), e))
	}
	if e != 64 {
		res = append(res, base(int(p.HalfMoveClock), c, 64))
	}
	return res
}

func cacheGen(r *common.Rng, n int, shard int, out *common.Out) {
	if shard == 0 {
		for _, s := range cacheCorpus {
			out.Line("%s", s)
		}
	}
	starts := poslib.StartPositions()
	size := evaluation.VerifConsts().CacheSize
	for i := 0; i < n; i++ {
		// a pool of positions from a few playouts
		var pool []position.Position
		for g := 0; g < 1+r.Intn(3); g++ {
			poslib.Playout(r, starts[r.Intn(len(starts))], 20+r.Intn(150), r.Chance(1, 2), func(p *position.Position, _ []move.Move, _ move.Move) bool {
				pool = append(pool, *p)
				return true
			})
		}
		// a pool without a single acceptable position (e.g. every position of a playout from a curated
		// start with unreachable material) would make the selection loop below spin for ever: draw a new pool
		usable := false
		for k := range pool {
			if poslib.NaiveInv(&pool[k]) == "" && poslib.MaterialOK(&pool[k]) {
				usable = true
				break
			}
		}
		if !usable {
			i--
			continue
		}
		// same-slot collisions inside the pool are kept adjacent when they exist
		bySlot := map[uint64][]int{}
		for k := range pool {
			bySlot[pool[k].ZobristHash%size] = append(bySlot[pool[k].ZobristHash%size], k)
		}
		var seq []string
		ln := 20 + r.Intn(150)
		for len(seq) < ln {
			k := r.Intn(len(pool))
			p := &pool[k]
			if poslib.NaiveInv(p) != "" || !poslib.MaterialOK(p) {
				continue
			}
			switch r.Intn(4) {
			case 0: // a family of twins differing only in clock / rights / ep, shuffled
				tw := twins(r, p)
				for j := range tw {
					o := r.Intn(j + 1)
					tw[j], tw[o] = tw[o], tw[j]
				}
				seq = append(seq, tw...)
			case 1: // revisit
				seq = append(seq, p.ToFen(), p.ToFen())
			default:
				seq = append(seq, p.ToFen())
				for _, o := range bySlot[p.ZobristHash%size] {
					if o != k && pool[o].ZobristHash != p.ZobristHash {
						seq = append(seq, pool[o].ToFen(), p.ToFen())
					}
				}
			}
		}
		out.Line("%s", strings.Join(seq, " ;; "))
	}
}

func cacheRun(cases []string, obs, oracle *common.Out) {
	for _, line := range cases {
		evaluation.VerifCacheClear()
		var scores []string
		verdict := "OK"
		for i, fen := range strings.Split(line, " ;; ") {
			p, err := position.NewFromFen(strings.TrimSpace(fen))
			if err != nil {
				scores = append(scores, "badfen")
				continue
			}
			res := common.Protect(func() string { return fmt.Sprint(evaluation.Evaluation(p)) })
			scores = append(scores, res)
			if poslib.NaiveInv(p) == "" && poslib.MaterialOK(p) && verdict == "OK" {
				unc, _, _, _ := evaluation.VerifEvalUncached(p)
				if res != fmt.Sprint(unc) {
					verdict = fmt.Sprintf("FAIL [C16] evaluation %d of the sequence (%s) returns %s through the cache, %d without it", i, fen, res, unc)
				}
			}
		}
		_ = types.WHITE
		obs.Line("%s", strings.Join(scores, " "))
		oracle.Line("%s", verdict)
	}
}
