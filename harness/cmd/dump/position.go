package main

import (
	"fmt"
	"unicode"

	"github.com/shaardie/clemens/pkg/pieces/bishop"
	"github.com/shaardie/clemens/pkg/pieces/king"
	"github.com/shaardie/clemens/pkg/pieces/knight"
	"github.com/shaardie/clemens/pkg/pieces/pawn"
	"github.com/shaardie/clemens/pkg/pieces/rook"
	"github.com/shaardie/clemens/pkg/position"
	"github.com/shaardie/clemens/pkg/types"
)

func init() {
	sections = append(sections, func() {
		sb.WriteString("\n(* pkg/position: Zobrist keys (outputs of math/rand in this build) *)\n")
		pieces, side, castling, ep := position.VerifZobristKeys()
		sb.WriteString("Definition zk_piece_tbl : list (list N) := [\n")
		for s := 0; s < 64; s++ {
			sb.WriteString("  [")
			for c := 0; c < 2; c++ {
				for t := 0; t < 6; t++ {
					if c+t > 0 {
						sb.WriteString("; ")
					}
					fmt.Fprintf(&sb, "%d", pieces[s][c][t])
				}
			}
			if s < 63 {
				sb.WriteString("];\n")
			} else {
				sb.WriteString("]\n")
			}
		}
		sb.WriteString("]%N.\n")
		defN("zk_side_key", side)
		defNList("zk_castling_tbl", castling[:])
		defNList("zk_ep_tbl", ep[:])

		sb.WriteString("\n(* magic entries: mask, multiplier, shift, table length per square *)\n")
		for _, pc := range []struct {
			name string
			f    func(uint8) (uint64, uint64, uint, int)
		}{{"rook", rook.VerifMagic}, {"bishop", bishop.VerifMagic}} {
			var masks, magics, shifts, lens []uint64
			for s := uint8(0); s < 64; s++ {
				mask, magic, shift, l := pc.f(s)
				masks = append(masks, mask)
				magics = append(magics, magic)
				shifts = append(shifts, uint64(shift))
				lens = append(lens, uint64(l))
			}
			defNList(pc.name+"_masks", masks)
			defNList(pc.name+"_magics", magics)
			defNList(pc.name+"_shifts", shifts)
			defNList(pc.name+"_tablens", lens)
		}

		sb.WriteString("\n(* leaper attack tables as the Go build holds them *)\n")
		var kn, kg, pw, pb []uint64
		for s := uint8(0); s < 64; s++ {
			kn = append(kn, uint64(knight.AttacksBySquare(s)))
			kg = append(kg, uint64(king.AttacksBySquare(s)))
			pw = append(pw, uint64(pawn.AttacksBySquare(types.WHITE, s)))
			pb = append(pb, uint64(pawn.AttacksBySquare(types.BLACK, s)))
		}
		defNList("knight_table", kn)
		defNList("king_table", kg)
		defNList("pawn_table_white", pw)
		defNList("pawn_table_black", pb)

		sb.WriteString("\n(* unicode.Digit (category Nd) of the Go toolchain: (lo, hi, stride) *)\n")
		sb.WriteString("Definition unicode_digit_tbl : list (N * N * N) := [")
		first := true
		emit := func(lo, hi, st uint32) {
			if !first {
				sb.WriteString("; ")
			}
			first = false
			fmt.Fprintf(&sb, "(%d, %d, %d)", lo, hi, st)
		}
		for _, r := range unicode.Digit.R16 {
			emit(uint32(r.Lo), uint32(r.Hi), uint32(r.Stride))
		}
		for _, r := range unicode.Digit.R32 {
			emit(r.Lo, r.Hi, r.Stride)
		}
		sb.WriteString("]%N.\n")
	})
}
