package main

import (
	"strings"

	"github.com/shaardie/clemens/pkg/evaluation"
	"github.com/shaardie/clemens/pkg/search/transpositiontable"
)

func init() {
	sections = append(sections, func() {
		sb.WriteString("(* pkg/search/transpositiontable *)\n")
		nb, bs := transpositiontable.VerifDims()
		defN("tt_numberOfBuckets", nb)
		defN("tt_bucketSize", uint64(bs))
		if !strings.Contains(sb.String(), "Definition eval_INF ") {
			sb.WriteString("(* pkg/evaluation *)\n")
			defZ("eval_INF", int64(evaluation.INF))
		}
	})
}
