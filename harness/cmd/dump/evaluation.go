package main

import (
	"fmt"

	"github.com/shaardie/clemens/pkg/evaluation"
)

func z16s(v []int16) []int64 {
	r := make([]int64, len(v))
	for i, x := range v {
		r[i] = int64(x)
	}
	return r
}

func init() {
	sections = append(sections, func() {
		c := evaluation.VerifConsts()
		sb.WriteString("\n(* pkg/evaluation *)\n")
		defZList("ev_piece_value", z16s(c.PieceValue[:]))
		for _, t := range []struct {
			name string
			tbl  *[2][6][64]int16
		}{{"ev_mid_pst", &c.MidPST}, {"ev_end_pst", &c.EndPST}} {
			fmt.Fprintf(&sb, "Definition %s : list (list (list Z)) := [\n", t.name)
			for col := 0; col < 2; col++ {
				sb.WriteString(" [")
				for pt := 0; pt < 6; pt++ {
					sb.WriteString("[")
					for s := 0; s < 64; s++ {
						if s > 0 {
							sb.WriteString(";")
						}
						fmt.Fprintf(&sb, "(%d)", t.tbl[col][pt][s])
					}
					if pt < 5 {
						sb.WriteString("];\n  ")
					} else {
						sb.WriteString("]")
					}
				}
				if col == 0 {
					sb.WriteString("];\n")
				} else {
					sb.WriteString("]\n")
				}
			}
			sb.WriteString("]%Z.\n")
		}
		defZList("ev_isolani", z16s(c.Isolanis[:]))
		defZ("ev_passed_scalar", int64(c.PassedScalar))
		defZ("ev_supported_scalar", int64(c.SupportedScalar))
		defZ("ev_rook_pair", int64(c.RookPair))
		defZ("ev_knight_pair", int64(c.KnightPair))
		defZ("ev_bishop_pair", int64(c.BishopPair))
		defZList("ev_knight_pawn_adj", z16s(c.KnightPawnAdj[:]))
		defZList("ev_rook_pawn_adj", z16s(c.RookPawnAdj[:]))
		ka := make([]int64, 6)
		for i, v := range c.KingAttValue {
			ka[i] = int64(v)
		}
		defZList("ev_king_att", ka)
		defZ("ev_phase_knight", int64(c.PhaseKnight))
		defZ("ev_phase_bishop", int64(c.PhaseBishop))
		defZ("ev_phase_rook", int64(c.PhaseRook))
		defZ("ev_phase_queen", int64(c.PhaseQueen))
		defZ("ev_max_phase", int64(c.MaxGamePhase))
		defZ("ev_endgame_border", int64(c.EndgameBorder))
		defZ("ev_contempt", int64(c.Contempt))
		defZ("ev_inf", int64(c.INF))
		defZ("ev_max_plies", int64(c.MaxPlies))
		defN("ev_cache_size", c.CacheSize)
	})
}
