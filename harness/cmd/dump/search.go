package main

import (
	"fmt"

	"github.com/shaardie/clemens/pkg/search"
)

func init() {
	sections = append(sections, func() {
		sb.WriteString("\n(* pkg/search *)\n")
		defZ("maxTimeInMs", int64(search.VerifMaxTimeInMs()))
		c := search.VerifConsts()
		defZ("se_widen_window", int64(c.WidenWindow))
		defN("se_max_depth", uint64(c.MaxDepth))
		defN("se_quiescence_max_depth", uint64(c.QuiescenceMaxDepth))
		defN("se_futility_depth", uint64(c.FutilityDepth))
		defZList("se_futility_margin", z16s(c.FutilityMargin))
		defZ("se_static_null_margin", int64(c.StaticNullMargin))
		defN("se_history_size", uint64(c.HistorySize))
		defN("mo_pv_score", uint64(c.PVMoveScore))
		defN("mo_tt_score", uint64(c.TTMoveScore))
		defN("mo_killer_score", uint64(c.KillerMoveScore))
		defN("mo_promotion_score", uint64(c.PromotionScore))
		defN("mo_counter_bonus", uint64(c.CounterMoveBonus))
		sb.WriteString("Definition mo_mvv_lva : list (list N) := [")
		for v := 0; v < 5; v++ {
			if v > 0 {
				sb.WriteString("; ")
			}
			sb.WriteString("[")
			for a := 0; a < 6; a++ {
				if a > 0 {
					sb.WriteString("; ")
				}
				fmt.Fprintf(&sb, "%d", c.MvvLva[v][a])
			}
			sb.WriteString("]")
		}
		sb.WriteString("]%N.\n")
	})
}
