package main

import "github.com/shaardie/clemens/pkg/search"

func init() {
	sections = append(sections, func() {
		sb.WriteString("(* pkg/search *)\n")
		defZ("maxTimeInMs", int64(search.VerifMaxTimeInMs()))
	})
}
