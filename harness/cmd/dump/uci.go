package main

import (
	"fmt"

	"github.com/shaardie/clemens/pkg/metadata"
	"github.com/shaardie/clemens/pkg/move"
	"github.com/shaardie/clemens/pkg/uci"
)

// defBytes emits a string as a byte list (list N).
func defBytes(name string, s string) {
	fmt.Fprintf(&sb, "Definition %s : list N := [", name)
	for j := 0; j < len(s); j++ {
		if j > 0 {
			sb.WriteString("; ")
		}
		fmt.Fprintf(&sb, "%d", s[j])
	}
	sb.WriteString("]%N.\n")
}

// defTokenList emits a list of strings as a list of byte lists (list (list N)).
func defTokenList(name string, ss []string) {
	fmt.Fprintf(&sb, "Definition %s : list (list N) := [", name)
	for i, s := range ss {
		if i > 0 {
			sb.WriteString(";")
		}
		sb.WriteString("\n  ")
		if plainWord(s) {
			fmt.Fprintf(&sb, "(* %s *) ", s)
		}
		sb.WriteString("[")
		for j := 0; j < len(s); j++ {
			if j > 0 {
				sb.WriteString("; ")
			}
			fmt.Fprintf(&sb, "%d", s[j])
		}
		sb.WriteString("]")
	}
	sb.WriteString("]%N.\n")
}

// plainWord: only such strings are echoed into a Coq comment.
func plainWord(s string) bool {
	for j := 0; j < len(s); j++ {
		c := s[j]
		if !(c >= 'a' && c <= 'z' || c >= 'A' && c <= 'Z' || c >= '0' && c <= '9') {
			return false
		}
	}
	return true
}

func init() {
	sections = append(sections, func() {
		sb.WriteString("(* pkg/uci *)\n")
		defTokenList("validFirstInputToken", uci.VerifValidFirstTokens())
		sb.WriteString("(* pkg/metadata: the answer to `uci` *)\n")
		defBytes("md_name", metadata.Name)
		defBytes("md_version", metadata.Version)
		defBytes("md_author", metadata.Author)
		sb.WriteString("(* pkg/move: capacity of MoveList (the 256th Append would be an index panic; the model's lists are unbounded) *)\n")
		fmt.Fprintf(&sb, "Definition ml_moveListSize : N := %d%%N.\n", move.VerifMoveListSize())
	})
}
