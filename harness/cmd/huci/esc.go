package main

import "strings"

// Transport convention shared with ocaml/h_c07.ml: in case lines and observables every byte
// outside printable ASCII, and the backslash itself, travels as \xHH (two lower-case hex
// digits), so a case is always one line of plain ASCII.

const hexdigits = "0123456789abcdef"

// esc: bytes -> transport text; keepSpace: a blank stays a blank (printed lines, raw lines).
func esc(s string, keepSpace bool) string {
	var b strings.Builder
	for i := 0; i < len(s); i++ {
		c := s[i]
		if (c > 32 && c < 127 && c != '\\') || (c == ' ' && keepSpace) {
			b.WriteByte(c)
		} else {
			b.WriteString("\\x")
			b.WriteByte(hexdigits[c>>4])
			b.WriteByte(hexdigits[c&15])
		}
	}
	return b.String()
}

func hexval(c byte) byte {
	if c >= '0' && c <= '9' {
		return c - '0'
	}
	return c - 'a' + 10
}

func unesc(s string) string {
	if !strings.Contains(s, "\\") {
		return s
	}
	var b strings.Builder
	for i := 0; i < len(s); i++ {
		if s[i] == '\\' && i+3 < len(s)+0 && s[i+1] == 'x' {
			b.WriteByte(hexval(s[i+2])<<4 | hexval(s[i+3]))
			i += 3
		} else if s[i] == '\\' {
			panic("bad escape in case line: " + s)
		} else {
			b.WriteByte(s[i])
		}
	}
	return b.String()
}

func escTokens(ts []string) string {
	out := make([]string, len(ts))
	for i, t := range ts {
		out[i] = esc(t, false)
	}
	return strings.Join(out, " ")
}
