package main

import (
	"fmt"
	"regexp"
	"runtime"
	"strings"
	"time"

	"github.com/shaardie/clemens/pkg/evaluation"
	"github.com/shaardie/clemens/pkg/move"
	"github.com/shaardie/clemens/pkg/position"
	"github.com/shaardie/clemens/pkg/search/transpositiontable"
	"github.com/shaardie/clemens/pkg/uci"
	"verifharness/common"
	"verifharness/poslib"
)

// Key SESSION: whole UCI sessions through the real handleInput (real game object, real search
// goroutine, real global tables), every `go` run to its bestmove before the next line is sent.
//
// Case: lines separated by " ;; "; each line is "<c>|<text>" where <text> is the raw input line and <c>
// the cancellation oracle the line's `go` is subject to: -1 (no stop, deadline far away: the line asks
// for a small depth) or 0 (the deadline has expired before the first node: movetime so small that the
// budget is negative). The generator only writes `go` lines whose oracle is determined by the line.
//
// Observable: everything the engine wrote to stdout, lines joined by " / ", with the wall-clock fields
// of info lines (time, nps) replaced by "*" and the text of Go error values cut off; then " end=eof|quit".
//
// Oracle (the properties on the implementation, no model involved): [C07] no line panics and every
// accepted go is answered by exactly one bestmove; [C04] the move answered is legal in the position an
// independent replay of the last position command reaches (null move only without legal moves);
// [C03] the `position` command was accepted when its game is legal.
func init() { props["SESSION"] = common.Prop{Gen: sessionGen, Run: sessionRun} }

var reTimeNps = regexp.MustCompile(`^(info depth \d+ score cp -?\d+ time )\d+( nodes \d+ nps )-?\d+( hashfull .*)$`)

func canonLine(l string) string {
	if m := reTimeNps.FindStringSubmatch(l); m != nil {
		return m[1] + "*" + m[2] + "*" + m[3]
	}
	const pf = "info string broken fen string, "
	if strings.HasPrefix(l, pf) {
		return pf
	}
	const pm = "info string error while making move "
	if strings.HasPrefix(l, pm) {
		rest := l[len(pm):]
		if i := strings.Index(rest, ", "); i >= 0 {
			return pm + rest[:i] + ", "
		}
	}
	return l
}

// goLine returns a `go` line and its oracle.
func sessionGoLine(r *common.Rng) (string, int) {
	d := 1 + r.Intn(3)
	switch r.Intn(12) {
	case 0:
		return fmt.Sprintf("go movetime %d", 1+r.Intn(50)), 0
	case 1:
		return fmt.Sprintf("go wtime %d btime %d", 1+r.Intn(40), 1+r.Intn(40)), 0
	case 2:
		return fmt.Sprintf("go depth %d infinite", d), -1
	case 3:
		return fmt.Sprintf("go infinite depth %d", d), -1
	case 4:
		return fmt.Sprintf("go depth %d wtime 3000000 btime 3000000 winc 1000 binc 1000 movestogo %d", d, 1+r.Intn(40)), -1
	case 5:
		return fmt.Sprintf("go depth %d movetime 900000 nodes 5000 mate 3", d), -1
	case 6:
		// a broken value after the depth: reported, the depth already parsed stays
		return fmt.Sprintf("go depth %d movetime 800000 wtime 12x", d), -1
	case 7:
		return fmt.Sprintf("go depth %d movetime 800000 winc", d), -1
	case 8:
		return fmt.Sprintf("go movetime 700000 depth %d ponder", d), -1
	case 9:
		return fmt.Sprintf("  go\tdepth  %d   movetime 600000 ", d), -1
	case 10:
		return fmt.Sprintf("xyz 12 go depth %d movetime 600000", d), -1
	}
	return fmt.Sprintf("go depth %d movetime 600000", d), -1
}

func sessionGen(r *common.Rng, n int, shard int, out *common.Out) {
	if shard == 0 {
		out.Line("%s", "-1|uci ;; -1|isready ;; -1|position startpos ;; -1|go depth 2 movetime 600000 ;; -1|isready")
		out.Line("%s", "-1|go depth 1 ;; -1|position startpos moves e2e4 e7e5 ;; 0|go movetime 1 ;; -1|go depth 1 movetime 600000 ;; -1|stop")
		out.Line("%s", "-1|position fen rnb1kbnr/pppp1ppp/8/4p3/6Pq/5P2/PPPPP2P/RNBQKBNR w KQkq - 1 3 ;; -1|go depth 2 movetime 600000 ;; -1|ucinewgame ;; -1|go depth 1 movetime 600000")
		out.Line("%s", "-1|position fen 7k/5Q2/6K1/8/8/8/8/8 b - - 0 1 ;; 0|go movetime 5 ;; -1|position startpos moves e2e4 e7e5 e1e3 ;; -1|go depth 1 movetime 600000")
		out.Line("%s", "-1|position fen 8/8/8/8 w - - ;; -1|position fen 9/8/8/8/8/8/8/8 w - - 0 1 ;; -1|position ;; -1|position startpos moves ;; -1|go depth 1 movetime 600000 ;; -1|quit ;; -1|isready")
	}
	starts := poslib.StartPositions()
	for i := 0; i < n; i++ {
		var lines []string
		add := func(c int, t string) { lines = append(lines, fmt.Sprintf("%d|%s", c, t)) }
		ngames := 1 + r.Intn(3)
		cost := 0
		for g := 0; g < ngames && cost < 3; g++ {
			if r.Chance(1, 3) {
				add(-1, []string{"uci", "isready", "ucinewgame", "stop", "debug on", "setoption name Hash value 32", "foo bar", "", "ponderhit"}[r.Intn(9)])
			}
			si := r.Intn(len(starts))
			if r.Chance(1, 2) {
				si = 0
			}
			startName := "startpos"
			if si > 0 {
				startName = "fen " + poslib.CuratedFens[si-1]
			}
			var moves []string
			pos := poslib.Playout(r, starts[si], r.Intn(50), r.Chance(1, 3), func(p *position.Position, legal []move.Move, m move.Move) bool {
				if m == move.NullMove {
					return false
				}
				moves = append(moves, m.String())
				return true
			})
			if poslib.NaiveInv(&pos) != "" || !poslib.MaterialOK(&pos) {
				continue
			}
			line := "position " + startName
			if len(moves) > 0 {
				line += " moves " + strings.Join(moves, " ")
			}
			if r.Chance(1, 10) {
				// an illegal or unparsable move at the end: reported, the moves before it stay applied
				line += []string{" e1e1", " zz", " a7a8k", " h9h1x"}[r.Intn(4)]
				if len(moves) == 0 {
					line = "position " + startName + " moves e2e5x"
				}
			}
			if r.Chance(1, 8) {
				line = "garbage " + line
			}
			add(-1, line)
			if r.Chance(1, 6) {
				add(-1, "isready")
			}
			ngo := 1
			if r.Chance(1, 5) {
				ngo = 2 // the second one is refused: no position is set
			}
			for k := 0; k < ngo; k++ {
				gl, c := sessionGoLine(r)
				add(c, gl)
				cost++
			}
		}
		if r.Chance(1, 10) {
			add(-1, "quit")
		}
		if len(lines) > 0 {
			out.Line("%s", strings.Join(lines, " ;; "))
		}
	}
}

// replayPosition: what an independent reading of a `position` line says the searched position is:
// the start or FEN position and the moves as long as each is the text of a legal move.
func replayPosition(tokens []string) (*position.Position, bool) {
	if len(tokens) == 0 {
		return nil, false
	}
	var p *position.Position
	rest := tokens
	switch tokens[0] {
	case "startpos":
		p = position.New()
		rest = tokens[1:]
	case "fen":
		if len(tokens) < 7 {
			return nil, false
		}
		q, err := position.NewFromFen(strings.Join(tokens[1:7], " "))
		if err != nil {
			return nil, false
		}
		p = q
		rest = tokens[7:]
	default:
		return nil, false
	}
	if len(rest) <= 1 || rest[0] != "moves" {
		return p, true
	}
	for _, t := range rest[1:] {
		found := false
		for _, m := range poslib.Legal(p) {
			if m.String() == t {
				p.MakeMove(m)
				found = true
				break
			}
		}
		if !found {
			return p, false // the game is not legal from here on: outside the domain
		}
	}
	return p, true
}

func sessionRun(cases []string, obs, oracle *common.Out) {
	cp := newCapture()
	defer cp.close()
	for _, cs := range cases {
		uci.VerifReset()
		transpositiontable.VerifResetAll()
		evaluation.VerifCacheClear()
		cp.take()
		var outLines []string
		verdict := "OK"
		fail := func(tag, format string, a ...any) {
			if verdict == "OK" {
				verdict = "FAIL [" + tag + "] " + fmt.Sprintf(format, a...)
			}
		}
		end := "eof"
		var cur *position.Position // independent replay of the last accepted position command
		curOK := false
		for li, item := range strings.Split(cs, " ;; ") {
			k := strings.Index(item, "|")
			text := item[k+1:]
			toks := uci.VerifPrepareInput(text)
			if len(toks) > 0 && toks[0] == "quit" {
				end = "quit"
				break
			}
			before := runtime.NumGoroutine()
			stateBefore := uci.VerifState()
			res := common.Protect(func() string { uci.VerifHandleLine(text); return "ok" })
			if res != "ok" {
				// in the domain of C07 unless the line is a position command whose game is not legal
				inDomain := true
				if len(toks) > 0 && toks[0] == "position" {
					if _, ok := replayPosition(toks[1:]); !ok {
						inDomain = false
					}
				}
				if inDomain {
					fail("C07", "line %d (%q) panics in its handler", li, text)
				}
				end = "panic"
				break
			}
			isGo := len(toks) > 0 && toks[0] == "go"
			if isGo {
				// run the search to its end before the next line is sent
				t0 := time.Now()
				for (uci.VerifState() == 2 || runtime.NumGoroutine() > before) && time.Since(t0) < 20*time.Second {
					time.Sleep(200 * time.Microsecond)
				}
				if uci.VerifState() == 2 {
					// every generated go line asks for a small depth or has an expired deadline: it cannot take 20 s
					fail("C07", "line %d (%q): the search started by this line has not ended after 20 s (its limits were not applied)", li, text)
					uci.VerifHandleLine("stop")
					for (uci.VerifState() == 2 || runtime.NumGoroutine() > before) && time.Since(t0) < 40*time.Second {
						time.Sleep(time.Millisecond)
					}
				}
			}
			printed := printedLines(cp.take())
			for _, l := range printed {
				outLines = append(outLines, canonLine(l))
			}
			if len(toks) > 0 && toks[0] == "position" {
				p, ok := replayPosition(toks[1:])
				refused := false
				for _, l := range printed {
					if strings.HasPrefix(l, "info string") {
						refused = true
					}
				}
				if ok && p != nil {
					if refused {
						fail("C03", "line %d (%q): a position command with a legal game is reported as faulty: %v", li, text, printed)
					}
					cur, curOK = p, true
				} else {
					cur, curOK = p, false
				}
			}
			if len(toks) > 0 && toks[0] == "ucinewgame" {
				cur, curOK = nil, false
			}
			if isGo {
				var bests []string
				for _, l := range printed {
					if strings.HasPrefix(l, "bestmove ") {
						bests = append(bests, strings.TrimPrefix(l, "bestmove "))
					}
				}
				accepted := stateBefore == 1
				if !accepted {
					if len(bests) != 0 {
						fail("C07", "line %d (%q): a go without a position set is answered by %v", li, text, bests)
					}
					continue
				}
				if len(bests) != 1 {
					fail("C07", "line %d (%q): an accepted go is answered by %d bestmove lines", li, text, len(bests))
					continue
				}
				if cur != nil && curOK && poslib.NaiveInv(cur) == "" {
					legal := poslib.Legal(cur)
					okm := false
					for _, m := range legal {
						if m.String() == bests[0] {
							okm = true
						}
					}
					if len(legal) == 0 {
						if bests[0] != move.NullMove.String() {
							fail("C04", "line %d (%q): no legal move exists in %s but the answer is %s", li, text, cur.ToFen(), bests[0])
						}
					} else if !okm {
						fail("C04", "line %d (%q): the answer %s is not a legal move in %s", li, text, bests[0], cur.ToFen())
					}
				}
				// a position is searched once: the next go needs a new position command
			}
		}
		obs.Line("%s end=%s", strings.Join(outLines, " / "), end)
		oracle.Line("%s", verdict)
	}
}
