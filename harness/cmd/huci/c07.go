package main

import (
	"fmt"
	"io"
	"math/big"
	"os"
	"strings"
	"unicode"
	"unicode/utf8"

	"github.com/shaardie/clemens/pkg/search"
	"github.com/shaardie/clemens/pkg/uci"
	"github.com/shaardie/clemens/pkg/uci/game"
	"verifharness/common"
)

// C07  — parseGo.   Case line: "go" followed by the tokens handed to parseGo (single blanks;
//                    bytes outside printable ASCII and the backslash as \xHH).
//                    Observable: the eight SearchParameter fields, then one tab-separated entry
//                    per line parseGo printed; or "panic".
// C07D — dispatch.  Case line: ">" followed by one raw input line (same escapes, blanks literal).
//                    Observable: the handler the line is dispatched to and its tokens (real handleInput
//                    with a recording game); the oracle also feeds the line to the real game.
func init() {
	props["C07"] = common.Prop{Gen: c07gen, Run: c07run}
	props["C07D"] = common.Prop{Gen: c07dgen, Run: c07drun}
}

// ------------------------------------------------------------------ stdout capture

// capture redirects os.Stdout (fmt.Printf/Println read the variable at call time) into a file
// and hands back what was written since the last call.
type capture struct {
	f    *os.File
	off  int64
	real *os.File
}

func newCapture() *capture {
	f, err := os.CreateTemp("", "huci-stdout-*")
	if err != nil {
		panic(err)
	}
	os.Remove(f.Name())
	c := &capture{f: f, real: os.Stdout}
	os.Stdout = f
	return c
}

func (c *capture) take() string {
	end, _ := c.f.Seek(0, io.SeekCurrent)
	if end <= c.off {
		return ""
	}
	buf := make([]byte, end-c.off)
	c.f.ReadAt(buf, c.off)
	c.off = end
	if end > 1<<26 {
		c.f.Truncate(0)
		c.f.Seek(0, io.SeekStart)
		c.off = 0
	}
	return string(buf)
}

func (c *capture) close() { os.Stdout = c.real; c.f.Close() }

func printedLines(s string) []string {
	s = strings.TrimSuffix(s, "\n")
	if s == "" {
		return nil
	}
	return strings.Split(s, "\n")
}

// ------------------------------------------------------------------ C07: generator

var c07kw = []string{"wtime", "btime", "winc", "binc", "movestogo", "movetime", "depth", "nodes", "mate"}

// values: in range, boundary, signed, overflowing, non-numeric
var c07values = []string{
	"0", "1", "5", "40", "255", "256", "257", "1000", "65535", "65536", "300000", "4294967296",
	"9223372036854775807", "9223372036854775808", "-9223372036854775808", "-9223372036854775809",
	"18446744073709551615", "18446744073709551616", "99999999999999999999", "99999999999999999999x",
	"999999999999999999", "1000000000000000000", "-999999999999999999", "+999999999999999999",
	"-1", "-5", "-255", "-256", "+5", "+0", "-0", "+", "-", "++1", "--1", "+-1", "1+", "1-",
	"007", "000000000000000000000000000005", "-000000000000000000000000000005", "0000000000000000000000000000000000000000",
	"12x", "x12", "1_000", "1_0", "_1", "0x10", "0b1", "0o7", "1e3", "1.0", "1,0", ".", "abc", "infinite", "depth",
	"١٢", "１", "\xff", "1\xff", "\xc3\xa9", "\"1\"", "1\\", "a\"b", "'1'", "1\x00", "\x7f", "1\x1b[0m",
	"123456789012345678901234567890123456789012345678901234567890",
}

var c07garbage = []string{"foo", "Depth", "WTIME", "wtime=5", "go", "ponder", "searchmoves", "e2e4", "42", "-", "\xff\xfe",
	"\xc3\xa9", "inf", "infinit", "infinitee", "%v", "%s%s%n", "\"", "\\", "time", "w"}

func c07value(r *common.Rng, k string) string {
	switch r.Intn(8) {
	case 0, 1:
		return c07values[r.Intn(len(c07values))]
	case 2:
		return fmt.Sprint(r.Intn(256))
	case 3:
		return fmt.Sprint(r.Intn(2000000))
	case 4:
		return fmt.Sprint(int64(r.U64() >> 1))
	case 5:
		return fmt.Sprint(-int64(r.U64() >> uint(1+r.Intn(62))))
	case 6:
		return fmt.Sprint(r.U64()) // up to 2^64-1: half of them overflow int64
	default:
		if k == "depth" {
			return fmt.Sprint(r.Intn(300))
		}
		return fmt.Sprint(r.Intn(100000))
	}
}

func c07line(out *common.Out, toks []string) {
	out.Line("%s", strings.TrimRight("go "+escTokens(toks), " "))
}

// an in-range value for keyword k, different for every keyword (so a swapped field shows)
func c07good(r *common.Rng, k string, i int) string {
	if k == "depth" {
		return fmt.Sprint(1 + (r.Intn(250)+i)%255)
	}
	return fmt.Sprint(1000*(i+1) + r.Intn(1000))
}

func c07perm(r *common.Rng, n int) []int {
	p := make([]int, n)
	for i := range p {
		p[i] = i
	}
	for i := n - 1; i > 0; i-- {
		j := r.Intn(i + 1)
		p[i], p[j] = p[j], p[i]
	}
	return p
}

func c07gen(r *common.Rng, n int, shard int, out *common.Out) {
	all := append(append([]string{}, c07kw...), "infinite")
	item := func(k string, i int) []string {
		if k == "infinite" {
			return []string{k}
		}
		return []string{k, c07good(r, k, i)}
	}
	if shard == 0 {
		// regression corpus first: D3 witnesses
		for _, l := range []string{"infinite", "infinite depth 5", "depth 5 infinite", "wtime 1 infinite btime 2",
			"infinite infinite", "infinite wtime", "infinite infinite infinite depth 7", ""} {
			c07line(out, strings.Fields(l))
		}
		// the realistic lines
		c07line(out, strings.Fields("wtime 300000 btime 295000 winc 2000 binc 2000 movestogo 40"))
		c07line(out, strings.Fields("movetime 5000"))
		c07line(out, strings.Fields("depth 12"))
		// every keyword: value missing; every listed value; then followed by more
		for _, k := range c07kw {
			c07line(out, []string{k})
			for _, v := range c07values {
				c07line(out, []string{k, v})
				c07line(out, []string{"btime", "77", k, v, "winc", "88"})
			}
			c07line(out, []string{"wtime", "5", k})
			for _, g := range c07garbage {
				c07line(out, []string{k, g})
				c07line(out, []string{k, "9", g, "depth", "3"})
				c07line(out, []string{g, k, "9"})
			}
			// duplicates: last one wins, a broken second one overwrites the time fields with 0
			c07line(out, []string{k, "11", k, "22"})
			c07line(out, []string{k, "11", k, "x"})
			c07line(out, []string{k, "11", k, "99999999999999999999"})
			c07line(out, []string{k, "11", k})
			// searchmoves before / after
			c07line(out, []string{"searchmoves", "e2e4", k, "5"})
			c07line(out, []string{k, "5", "searchmoves", "e2e4", "d2d4"})
			// infinite first / middle / last
			c07line(out, []string{"infinite", k, "9"})
			c07line(out, []string{k, "9", "infinite"})
			c07line(out, []string{"wtime", "1", "infinite", k, "9"})
		}
		// every subset of the ten parameters, once in the listed order and once shuffled
		for mask := 0; mask < 1<<len(all); mask++ {
			var sel []string
			for i, k := range all {
				if mask>>i&1 == 1 {
					sel = append(sel, k)
				}
			}
			for rep := 0; rep < 2; rep++ {
				order := make([]int, len(sel))
				for i := range order {
					order[i] = i
				}
				if rep == 1 {
					order = c07perm(r, len(sel))
				}
				var toks []string
				for _, i := range order {
					toks = append(toks, item(sel[i], i)...)
				}
				c07line(out, toks)
			}
		}
		// every order of every one, two and three of them
		for a := range all {
			for b := range all {
				if b == a {
					continue
				}
				c07line(out, append(item(all[a], a), item(all[b], b)...))
				for c := range all {
					if c == a || c == b {
						continue
					}
					c07line(out, append(append(item(all[a], a), item(all[b], b)...), item(all[c], c)...))
				}
			}
		}
	}
	for i := 0; i < n; i++ {
		var toks []string
		switch r.Intn(4) {
		case 0: // well-formed: a shuffled subset with in-range values
			p := c07perm(r, len(all))
			m := r.Intn(len(all) + 1)
			for _, j := range p[:m] {
				toks = append(toks, item(all[j], j)...)
			}
		case 1: // well-formed but for values drawn from everywhere
			p := c07perm(r, len(all))
			m := 1 + r.Intn(len(all))
			for _, j := range p[:m] {
				if all[j] == "infinite" {
					toks = append(toks, "infinite")
				} else {
					toks = append(toks, all[j], c07value(r, all[j]))
				}
			}
		default: // anything: duplicates, missing values, garbage, searchmoves
			m := r.Intn(9)
			for j := 0; j < m; j++ {
				switch x := r.Intn(20); {
				case x < 12:
					k := c07kw[r.Intn(len(c07kw))]
					toks = append(toks, k)
					if !r.Chance(1, 12) {
						toks = append(toks, c07value(r, k))
					}
				case x < 15:
					toks = append(toks, "infinite")
				case x < 18:
					toks = append(toks, c07garbage[r.Intn(len(c07garbage))])
				case x < 19:
					toks = append(toks, "searchmoves")
				default:
					toks = append(toks, c07values[r.Intn(len(c07values))])
				}
			}
		}
		c07line(out, toks)
	}
}

// ------------------------------------------------------------------ C07: run + oracle

func c07tokens(caseLine string) []string {
	f := strings.Split(caseLine, " ")
	if len(f) == 0 || f[0] != "go" {
		panic("C07 case does not start with go: " + caseLine)
	}
	var toks []string
	for _, t := range f[1:] {
		if t != "" {
			toks = append(toks, unesc(t))
		}
	}
	return toks
}

// simpleQuoted: q is "…" around printable ASCII without double quote and backslash — the tokens
// for which the model claims the text strconv.Quote produces.
func simpleQuoted(q string) bool {
	if len(q) < 2 || q[0] != '"' || q[len(q)-1] != '"' {
		return false
	}
	for i := 1; i < len(q)-1; i++ {
		c := q[i]
		if c < 32 || c > 126 || c == '"' || c == '\\' {
			return false
		}
	}
	return true
}

// c07canonLine: the quoted token of a failed Atoi is compared literally only when it is simple.
func c07canonLine(l string) string {
	const mark = ", strconv.Atoi: parsing "
	i := strings.Index(l, mark)
	if i < 0 {
		return l
	}
	rest := l[i+len(mark):]
	for _, suf := range []string{": invalid syntax", ": value out of range"} {
		if strings.HasSuffix(rest, suf) {
			q := rest[:len(rest)-len(suf)]
			if !simpleQuoted(q) {
				return l[:i+len(mark)] + "<non-simple>" + suf
			}
		}
	}
	return l
}

func c07call(toks []string) (sp search.SearchParameter, panicked bool) {
	defer func() {
		if r := recover(); r != nil {
			panicked = true
		}
	}()
	sp = game.VerifParseGo(toks)
	return
}

// The reference reading of a `go` line, independent of parseGo: keyword -> value.
type c07ref struct {
	vals      map[string]int64
	infinite  bool
	dup       bool   // some parameter given twice: the property does not say which one counts
	other     bool   // a token that is no standard parameter (searchmoves, garbage): only "no crash"
	malformed string // keyword whose value is missing or not an integer
}

var c07maxInt = new(big.Int).SetInt64(1<<63 - 1)
var c07minInt = new(big.Int).SetInt64(-1 << 63)

func c07int(s string) (int64, bool) {
	body := s
	if len(body) > 0 && (body[0] == '+' || body[0] == '-') {
		body = body[1:]
	}
	if body == "" {
		return 0, false
	}
	for i := 0; i < len(body); i++ {
		if body[i] < '0' || body[i] > '9' {
			return 0, false
		}
	}
	v, ok := new(big.Int).SetString(s, 10)
	if !ok || v.Cmp(c07maxInt) > 0 || v.Cmp(c07minInt) < 0 {
		return 0, false
	}
	return v.Int64(), true
}

func c07reference(toks []string) c07ref {
	ref := c07ref{vals: map[string]int64{}}
	isKw := map[string]bool{}
	for _, k := range c07kw {
		isKw[k] = true
	}
	seenInf := false
	for i := 0; i < len(toks); {
		t := toks[i]
		switch {
		case t == "infinite":
			if seenInf {
				ref.dup = true
			}
			seenInf, ref.infinite = true, true
			i++
		case isKw[t]:
			if i+1 >= len(toks) {
				ref.malformed = t
				return ref
			}
			v, ok := c07int(toks[i+1])
			if !ok {
				ref.malformed = t
				return ref
			}
			if _, d := ref.vals[t]; d {
				ref.dup = true
			}
			ref.vals[t] = v
			i += 2
		default:
			ref.other = true
			return ref
		}
	}
	if len(toks) == 0 {
		ref.infinite = true
	}
	return ref
}

var c07labels = map[string]string{"wtime": "white time", "btime": "black time", "winc": "white increment",
	"binc": "black increment", "movestogo": "moves to go", "movetime": "movetime", "depth": "depth",
	"nodes": "nodes", "mate": "mate"}

// named: some printed `info string` line names the keyword (itself or by its description)
func c07named(lines []string, k string) bool {
	for _, l := range lines {
		ll := strings.ToLower(l)
		if strings.HasPrefix(ll, "info string") && (strings.Contains(ll, k) || strings.Contains(ll, c07labels[k])) {
			return true
		}
	}
	return false
}

// The property itself on the implementation.
func c07oracle(toks []string, sp search.SearchParameter, panicked bool, lines []string) string {
	if panicked {
		return "FAIL parseGo panics on: go " + escTokens(toks)
	}
	ref := c07reference(toks)
	if ref.malformed != "" {
		if !c07named(lines, ref.malformed) {
			return fmt.Sprintf("FAIL malformed or missing value of %s is not reported: go %s", ref.malformed, escTokens(toks))
		}
		return "OK"
	}
	if ref.other || ref.dup {
		return "OK" // only "does not crash" is claimed
	}
	got := map[string]int64{"wtime": int64(sp.WTime), "btime": int64(sp.BTime), "winc": int64(sp.WInc),
		"binc": int64(sp.BInc), "movestogo": int64(sp.MovesToGo), "movetime": int64(sp.MoveTime), "depth": int64(sp.Depth)}
	for _, k := range c07kw[:7] {
		want := ref.vals[k]
		if k == "depth" && (want < 0 || want > 255) {
			continue // exactness is claimed for what the field can hold
		}
		if got[k] != want {
			return fmt.Sprintf("FAIL %s is %d, the line gives %d: go %s", k, got[k], want, escTokens(toks))
		}
	}
	if sp.Infinite != ref.infinite {
		return fmt.Sprintf("FAIL infinite is %v, the line gives %v: go %s", sp.Infinite, ref.infinite, escTokens(toks))
	}
	for _, k := range []string{"nodes", "mate"} {
		if _, given := ref.vals[k]; given && !c07named(lines, k) {
			return fmt.Sprintf("FAIL %s limit is not acknowledged: go %s", k, escTokens(toks))
		}
	}
	return "OK"
}

func c07run(cases []string, obs, oracle *common.Out) {
	cp := newCapture()
	defer cp.close()
	for _, c := range cases {
		toks := c07tokens(c)
		sp, panicked := c07call(toks)
		lines := printedLines(cp.take())
		if panicked {
			obs.Line("panic")
		} else {
			inf := 0
			if sp.Infinite {
				inf = 1
			}
			var b strings.Builder
			fmt.Fprintf(&b, "wtime=%d btime=%d winc=%d binc=%d movestogo=%d depth=%d movetime=%d infinite=%d",
				sp.WTime, sp.BTime, sp.WInc, sp.BInc, sp.MovesToGo, sp.Depth, sp.MoveTime, inf)
			for _, l := range lines {
				b.WriteByte('\t')
				b.WriteString(esc(c07canonLine(l), true))
			}
			obs.Line("%s", b.String())
		}
		oracle.Line("%s", c07oracle(toks, sp, panicked, lines))
	}
}

// ------------------------------------------------------------------ C07D: generator

var c07dImplemented = []string{"uci", "quit", "isready", "ucinewgame", "position", "go", "stop"}

// UCI words of the GUI-to-engine direction the engine has no handler for. Whether such a word
// stops the skipping of leading tokens is not fixed by the property; the oracle accepts both.
var c07dOtherUCI = []string{"debug", "setoption", "register", "ponderhit"}

var c07dUnknown = []string{"foo", "bar", "xyzzy", "42", "GO", "Go", "gO", "go!", "goo", "g", "UCI", "ucii", "uci?", "isready?",
	"Quit", "quitt", "stopp", "Stop", "positions", "startpos", "moves", "e2e4", "wtime", "infinite", "joho", "-", "\"go\"",
	"\xc3\xa9", "\xe2\x99\x9e", "\xff", "go\xff", "\xa0", "\x85", "\xc2", "g\x00o", "\x00", "\x1b[2J", "%s", "\\n", "name", "on", "off",
	"ponder", "readyok", "bestmove", "info", "id", "option", "copyprotection", "registration", "uciok"}

var c07dSeps = []string{" ", " ", " ", "  ", "\t", " \t ", "\v", "\f", "\r", "\t\t", "   ", " \r", "\n"}

func c07dpick(r *common.Rng, l []string) string { return l[r.Intn(len(l))] }

func c07djoin(r *common.Rng, toks []string) string {
	var b strings.Builder
	if r.Chance(1, 4) {
		b.WriteString(c07dpick(r, c07dSeps))
	}
	for i, t := range toks {
		if i > 0 {
			b.WriteString(c07dpick(r, c07dSeps))
		}
		b.WriteString(t)
	}
	if r.Chance(1, 4) {
		b.WriteString(c07dpick(r, c07dSeps))
	}
	return b.String()
}

func c07drest(r *common.Rng, cmd string) []string {
	switch cmd {
	case "go":
		var toks []string
		m := r.Intn(5)
		for j := 0; j < m; j++ {
			if r.Chance(1, 5) {
				toks = append(toks, "infinite")
			} else {
				k := c07kw[r.Intn(len(c07kw))]
				toks = append(toks, k, c07value(r, k))
			}
		}
		return toks
	case "position":
		return [][]string{{"startpos"}, {"startpos", "moves", "e2e4", "e7e5"}, {},
			{"fen", "rnbqkbnr/pppppppp/8/8/8/8/PPPPPPPP/RNBQKBNR", "w", "KQkq", "-", "0", "1"}}[r.Intn(4)]
	default:
		var toks []string
		m := r.Intn(4)
		for j := 0; j < m; j++ {
			switch r.Intn(3) {
			case 0:
				toks = append(toks, c07dpick(r, c07dUnknown))
			case 1:
				toks = append(toks, c07dpick(r, c07dImplemented))
			default:
				toks = append(toks, c07dpick(r, c07dOtherUCI))
			}
		}
		return toks
	}
}

func c07dgen(r *common.Rng, n int, shard int, out *common.Out) {
	emit := func(s string) { out.Line(">%s", esc(s, true)) }
	if shard == 0 {
		for _, s := range []string{"", " ", "\t \t", "uci", "isready", "quit", "stop", "ucinewgame", "go", "position startpos",
			"debug on", "   debug     on  ", "\t  debug \t  \t\ton\t  ", "joho debug on", "joho isready", "setoption name Hash value 32",
			"ponderhit", "ponderhit go depth 3", "register later", "register go", "foo bar", "foo bar go wtime 1000 btime 1000",
			"go infinite", "xx yy zz quit", "quit now", "stop stop", "isready isready", "uci uci", "Go depth 3", "go\tdepth\t3",
			"\xc3\xa9 go depth 3", "\xff\xfe isready", "go\x00 depth 3", "position fen 8/8/8/8/8/8/8/8 w - - 0 1 moves e2e4",
			"ucinewgame position startpos", "a b c d e f g h i j k l m n o p stop"} {
			emit(s)
		}
		// every valid-looking first word behind every kind of prefix
		words := append(append(append([]string{}, c07dImplemented...), c07dOtherUCI...), "foo")
		for _, w := range words {
			for _, pre := range [][]string{{}, {"foo"}, {"foo", "42", "\xff"}, {"ponderhit"}, {"debug"}, {"register"}, {"setoption", "name"}, {"GO"}} {
				for _, rest := range [][]string{{}, {"depth", "3"}, {"startpos", "moves", "e2e4"}, {"quit"}} {
					emit(strings.Join(append(append(append([]string{}, pre...), w), rest...), " "))
				}
			}
		}
	}
	for i := 0; i < n; i++ {
		var toks []string
		for j, m := 0, r.Intn(5); j < m; j++ {
			if r.Chance(1, 12) {
				toks = append(toks, c07dpick(r, c07dOtherUCI))
			} else {
				toks = append(toks, c07dpick(r, c07dUnknown))
			}
		}
		switch x := r.Intn(10); {
		case x < 6:
			cmd := c07dpick(r, c07dImplemented)
			toks = append(append(toks, cmd), c07drest(r, cmd)...)
		case x < 8:
			cmd := c07dpick(r, c07dOtherUCI)
			toks = append(append(toks, cmd), c07drest(r, cmd)...)
		default:
			// an unknown command: nothing valid anywhere
		}
		emit(c07djoin(r, toks))
	}
}

// ------------------------------------------------------------------ C07D: run + oracle

// refFields: split at Unicode white space, written out here (not strings.Fields).
func refFields(s string) []string {
	var out []string
	start := -1
	for i := 0; i < len(s); {
		rn, w := utf8.DecodeRuneInString(s[i:])
		if unicode.IsSpace(rn) && !(rn == utf8.RuneError && w == 1) {
			if start >= 0 {
				out = append(out, s[start:i])
				start = -1
			}
		} else if start < 0 {
			start = i
		}
		i += w
	}
	if start >= 0 {
		out = append(out, s[start:])
	}
	return out
}

func inList(l []string, s string) bool {
	for _, x := range l {
		if x == s {
			return true
		}
	}
	return false
}

func c07dobs(name string, toks []string) string {
	if len(toks) == 0 {
		return name
	}
	return name + " " + escTokens(toks)
}

// The property itself: unknown leading tokens are skipped, unknown commands are ignored, the
// first command word is handed the rest of the line.
func c07doracle(line, got string) string {
	toks := refFields(line)
	first, other := -1, -1
	for i, t := range toks {
		if first < 0 && inList(c07dImplemented, t) {
			first = i
		}
		if other < 0 && inList(c07dOtherUCI, t) {
			other = i
		}
	}
	if first < 0 {
		if got != "none" {
			return fmt.Sprintf("FAIL a line without any command is dispatched to %q: %s", got, esc(line, true))
		}
		return "OK"
	}
	want := toks[first]
	if want == "position" || want == "go" {
		want = c07dobs(want, toks[first+1:])
	}
	if got == want {
		return "OK"
	}
	if other >= 0 && other < first && got == "none" {
		return "OK" // a UCI word without handler came first and the line was ignored
	}
	return fmt.Sprintf("FAIL dispatched to %q, the line says %q: %s", got, want, esc(line, true))
}

// c07dreal feeds the line to handleInput with the REAL game installed (no position is ever set,
// so `go` answers "no position is set" and parseGo is not reached; `position` lines are left
// out: what NewPosition does with its tokens belongs to C03/C11) and checks what the property
// promises about the reaction: isready is answered with readyok, uci with uciok, an ignored
// line prints nothing, nothing panics.
func c07dreal(cp *capture, line, got string) string {
	cmd := strings.SplitN(got, " ", 2)[0]
	if cmd == "position" || cmd == "quit" || cmd == "panic" || cmd == "printed" {
		return ""
	}
	res := common.Protect(func() string {
		if !uci.VerifHandleInput(line) {
			return "refused"
		}
		return "ok"
	})
	printed := cp.take()
	switch {
	case res != "ok":
		return "FAIL real game: handleInput " + res + " on: " + esc(line, true)
	case cmd == "isready" && printed != "readyok\n":
		return fmt.Sprintf("FAIL real game: isready line answered with %q: %s", printed, esc(line, true))
	case cmd == "uci" && !strings.HasSuffix(printed, "uciok\n"):
		return fmt.Sprintf("FAIL real game: uci line answered with %q: %s", printed, esc(line, true))
	case (cmd == "none" || cmd == "stop" || cmd == "ucinewgame") && printed != "":
		return fmt.Sprintf("FAIL real game: an ignored line prints %q: %s", printed, esc(line, true))
	}
	return ""
}

func c07drun(cases []string, obs, oracle *common.Out) {
	cp := newCapture()
	defer cp.close()
	uci.VerifReset()
	for _, c := range cases {
		if len(c) == 0 || c[0] != '>' {
			panic("C07D case does not start with >: " + c)
		}
		line := unesc(c[1:])
		got := common.Protect(func() string {
			d := uci.VerifDispatch(line)
			printed := cp.take()
			switch {
			case d == "" && strings.HasSuffix(printed, "uciok\n"):
				return "uci"
			case d == "" && printed == "":
				return "none"
			case d == "":
				return "printed " + esc(printed, true)
			}
			f := strings.Split(d, " ")
			return c07dobs(f[0], f[1:])
		})
		cp.take()
		obs.Line("%s", got)
		if got == "panic" {
			oracle.Line("FAIL handleInput panics on: %s", esc(line, true))
		} else if v := c07doracle(line, got); v != "OK" {
			oracle.Line("%s", v)
		} else if v := c07dreal(cp, line, got); v != "" {
			oracle.Line("%s", v)
		} else {
			oracle.Line("OK")
		}
	}
}
