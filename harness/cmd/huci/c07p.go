package main

import (
	"bufio"
	"fmt"
	"io"
	"os"
	"os/exec"
	"path/filepath"
	"strconv"
	"strings"
	"sync"
	"sync/atomic"
	"time"

	"verifharness/common"
)

// C07P — process-level probe (tested, not proved): the real engine binary (cmd/uci, built
// WITHOUT the verif tag) is fed a hostile script and must afterwards still answer `isready`
// with `readyok`, and end on `quit`.
// Case line: "S:" followed by the script, its lines joined by \x0a (escapes as in esc.go).
// A script line "~<n>" is not sent: the harness pauses n milliseconds there. handleInput starts
// `go` in a goroutine and StartSearch refuses to run unless a position was set since the last
// search, so a `go` line is certain to reach parseGo only as  position.. / go.. / pause / stop /
// pause  (without the pauses a later `go` can overtake an earlier one and the earlier is refused).
// Scripts stay inside the property's domain: lines of at most 65000 bytes, no garbage inside a
// `position` command, only legal moves and positions; every `go` is followed by `stop`.
func init() {
	props["C07P"] = common.Prop{Gen: c07pgen, Run: c07prun}
}

var c07pGoLines = []string{
	"go", "go infinite", "go infinite depth 5", "go depth 1 infinite", "go depth 1", "go depth 2 wtime 1000 btime 1000",
	"go wtime", "go wtime x", "go movetime", "go depth", "go depth x", "go nodes", "go nodes 100", "go mate 2", "go mate",
	"go wtime 99999999999999999999", "go wtime -1 btime -1", "go movetime 50", "go depth 256", "go depth -1 movetime 50",
	"go searchmoves e2e4", "go foo", "go wtime 1000 foo btime 1000", "go winc", "go binc +", "go movestogo 1_000",
	"go wtime 100 winc 5000", "go infinite infinite", "go movetime 30 infinite", "go \xff\xfe", "go depth 1 \"x\"",
}

var c07pNoise = []string{
	"", " ", "\t", "foo", "foo bar baz", "xyzzy isready", "hello uci", "debug on", "debug", "setoption name Hash value 32",
	"setoption", "ponderhit", "register later", "stop", "stop stop", "ucinewgame", "uci", "isready", "UCI", "Go depth 3",
	"\xff\xfe\xfd", "\x00\x01\x02", "\xc3\xa9\xe2\x99\x9e", "%s%s%s%n", "'; DROP TABLE moves; --", "go", "position",
	"bestmove e2e4", "readyok", "info string hello", "\x1b[2J", "a\rb", "go\xc2\xa0depth\xc2\xa01", "\xc2\xa0isready", "\xe3\x80\x80",
}

var c07pPositions = []string{
	"position startpos", "position startpos moves e2e4", "position startpos moves e2e4 e7e5 g1f3",
	"position fen rnbqkbnr/pppppppp/8/8/8/8/PPPPPPPP/RNBQKBNR w KQkq - 0 1",
	"position fen r3k2r/p1ppqpb1/bn2pnp1/3PN3/1p2P3/2N2Q1p/PPPBBPPP/R3K2R w KQkq - 0 1 moves e1g1",
	"junk words position startpos",
}

const c07pPause = "~40"

// c07pgo: the lines that make sure `goLine` is parsed and the search it starts is over again.
func c07pgo(pos, goLine string) []string {
	return []string{pos, goLine, c07pPause, "stop", c07pPause}
}

func c07pemit(out *common.Out, lines []string) { out.Line("S:%s", esc(strings.Join(lines, "\n"), true)) }

func c07pgen(r *common.Rng, n int, shard int, out *common.Out) {
	if shard == 0 {
		// regression corpus: D3 with and without a position
		c07pemit(out, c07pgo("position startpos", "go infinite"))
		c07pemit(out, []string{"go infinite"})
		c07pemit(out, []string{"position startpos", "go infinite", "stop"}) // back to back, as a GUI might
		c07pemit(out, c07pgo("position startpos", "go depth 1 infinite"))
		c07pemit(out, append([]string{"ucinewgame"}, c07pgo("position startpos moves e2e4", "go wtime 1000 btime 1000 infinite")...))
		// every go line, with no position set (parseGo is not reached: "no position is set")
		c07pemit(out, c07pGoLines)
		// every go line after a position, each followed by stop
		for i := 0; i < len(c07pGoLines); i += 4 {
			var s []string
			for j, g := range c07pGoLines[i:min(i+4, len(c07pGoLines))] {
				s = append(s, c07pgo(c07pPositions[(i+j)%len(c07pPositions)], g)...)
			}
			c07pemit(out, s)
		}
		// noise only; long lines (bufio.Scanner's limit is 64 KiB)
		c07pemit(out, c07pNoise)
		c07pemit(out, []string{strings.Repeat("x", 65000), strings.Repeat("go ", 21000), strings.Repeat("\xff", 65000),
			"go wtime " + strings.Repeat("9", 64000), strings.Repeat(" ", 65000) + "isready"})
		c07pemit(out, append(c07pgo("position startpos", "go depth "+strings.Repeat("1", 60000)),
			c07pgo("position startpos", "go "+strings.Repeat("wtime 1 ", 8000)+"depth 1")...))
		// long lines must keep their MEANING (unknown leading tokens skipped, the command executed once): a go of
		// depth 1 behind a prefix of blanks or unknown tokens whose length straddles the usual buffer sizes; "=k" asserts
		// that exactly k bestmove lines have been printed so far
		for _, unit := range []string{" ", "x ", "\t", "zz9 "} {
			var sc []string
			k := 0
			for _, total := range []int{4090, 4093, 4094, 4095, 4096, 4097, 8191, 8192, 8193, 16384, 40000, 65000} {
				pad := strings.Repeat(unit, total/len(unit))
				k++
				sc = append(sc, "position startpos", pad+"go depth 1 movetime 400", "~450", fmt.Sprintf("=%d", k))
			}
			c07pemit(out, sc)
		}
	}
	for i := 0; i < n; i++ {
		var s []string
		m := 3 + r.Intn(10)
		for j := 0; j < m; j++ {
			switch x := r.Intn(10); {
			case x < 4:
				s = append(s, c07pNoise[r.Intn(len(c07pNoise))])
			case x < 5:
				s = append(s, c07pPositions[r.Intn(len(c07pPositions))])
			case x < 6: // a go line with no position before it, or right behind another one
				s = append(s, c07pGoLines[r.Intn(len(c07pGoLines))], "stop")
			default:
				pre := ""
				if r.Chance(1, 3) {
					pre = c07dpick(r, c07dUnknown) + " "
				}
				s = append(s, c07pgo(c07pPositions[r.Intn(len(c07pPositions))], pre+c07pGoLines[r.Intn(len(c07pGoLines))])...)
			}
		}
		c07pemit(out, s)
	}
}

func c07pbuild() (string, error) {
	exe, err := os.Executable()
	if err != nil {
		return "", err
	}
	harness := filepath.Dir(filepath.Dir(exe))
	dir, err := os.MkdirTemp("", "huci-engine-*")
	if err != nil {
		return "", err
	}
	bin := filepath.Join(dir, "engine")
	cmd := exec.Command("go", "build", "-o", bin, "github.com/shaardie/clemens/cmd/uci")
	cmd.Dir = harness
	cmd.Env = append(os.Environ(), "GOFLAGS=-mod=mod", "GOPROXY=off", "GOSUMDB=off", "GOTOOLCHAIN=local", "CGO_ENABLED=0")
	if b, err := cmd.CombinedOutput(); err != nil {
		return "", fmt.Errorf("go build cmd/uci: %v\n%s", err, b)
	}
	return bin, nil
}

// c07pprobe runs one script against a fresh engine process.
func c07pprobe(bin string, script []string) (obs string, verdict string) {
	cmd := exec.Command(bin)
	stdin, _ := cmd.StdinPipe()
	stdout, _ := cmd.StdoutPipe()
	var stderr strings.Builder
	cmd.Stderr = &stderr
	if err := cmd.Start(); err != nil {
		return "not started", "FAIL engine does not start: " + err.Error()
	}
	lines := make(chan string, 1024)
	var bestmoves atomic.Int64
	go func() {
		sc := bufio.NewScanner(stdout)
		sc.Buffer(make([]byte, 1<<20), 1<<26)
		for sc.Scan() {
			if strings.HasPrefix(sc.Text(), "bestmove ") {
				bestmoves.Add(1)
			}
			select {
			case lines <- sc.Text():
			default: // nobody is interested any more
			}
		}
		close(lines)
	}()
	exited := make(chan error, 1)
	go func() { exited <- cmd.Wait() }()
	defer func() { cmd.Process.Kill() }()

	time.Sleep(1200 * time.Millisecond) // start-up (magic number search) takes about 0.8 s
	wr := func(s string) { io.WriteString(stdin, s+"\n") }
	for _, l := range script {
		if len(l) > 1 && l[0] == '~' {
			if ms, err := strconv.Atoi(l[1:]); err == nil {
				time.Sleep(time.Duration(ms) * time.Millisecond)
				continue
			}
		}
		if len(l) > 1 && l[0] == '=' {
			if want, err := strconv.Atoi(l[1:]); err == nil {
				// give a loaded machine some more time before judging
				for i := 0; i < 40 && bestmoves.Load() < int64(want); i++ {
					time.Sleep(100 * time.Millisecond)
				}
				if got := bestmoves.Load(); got != int64(want) {
					return fmt.Sprintf("bestmoves=%d", got), fmt.Sprintf("FAIL a go line of depth 1 behind a long prefix of blanks / unknown tokens is not executed exactly once: %d bestmove lines where %d are due", got, want)
				}
				continue
			}
		}
		wr(l)
	}
	// Everything the script itself provoked (its own isready lines) is drained first, so that
	// the readyok below is the answer to the probe.
	time.Sleep(150 * time.Millisecond)
drain:
	for {
		select {
		case _, ok := <-lines:
			if !ok {
				break drain
			}
		default:
			break drain
		}
	}
	wr("isready")
	deadline := time.After(10 * time.Second)
	ready := false
wait:
	for {
		select {
		case l, ok := <-lines:
			if !ok {
				break wait
			}
			if l == "readyok" {
				ready = true
				break wait
			}
		case <-deadline:
			break wait
		}
	}
	if !ready {
		why := "no readyok within 10 s"
		select {
		case <-time.After(500 * time.Millisecond):
		case err := <-exited:
			why = fmt.Sprintf("the engine process died (%v)", err)
			if i := strings.Index(stderr.String(), "panic:"); i >= 0 {
				msg := stderr.String()[i:]
				if j := strings.Index(msg, "\n"); j > 0 {
					msg = msg[:j]
				}
				why += ": " + msg
			}
		}
		return "dead", "FAIL after the script, isready is not answered: " + why
	}
	wr("quit")
	select {
	case err := <-exited:
		if err != nil {
			return "alive readyok quit=" + err.Error(), "FAIL quit ends the engine with " + err.Error()
		}
		return "alive readyok quit=0", "OK"
	case <-time.After(10 * time.Second):
		return "alive readyok quit=hang", "FAIL quit does not end the engine within 10 s"
	}
}

func c07prun(cases []string, obs, oracle *common.Out) {
	bin, err := c07pbuild()
	if err != nil {
		fmt.Fprintln(os.Stderr, err)
		os.Exit(3)
	}
	defer os.RemoveAll(filepath.Dir(bin))
	type result struct{ obs, verdict string }
	results := make([]result, len(cases))
	sem := make(chan struct{}, 12)
	var wg sync.WaitGroup
	for i, c := range cases {
		if !strings.HasPrefix(c, "S:") {
			panic("C07P case does not start with S: " + c[:min(len(c), 40)])
		}
		script := strings.Split(unesc(c[2:]), "\n")
		wg.Add(1)
		sem <- struct{}{}
		go func(i int, script []string) {
			defer wg.Done()
			defer func() { <-sem }()
			o, v := c07pprobe(bin, script)
			if v != "OK" {
				// name the script by its lines, shortened
				var short []string
				for _, l := range script {
					if len(l) > 60 {
						l = l[:60] + "..."
					}
					short = append(short, esc(l, true))
				}
				v += " [script: " + strings.Join(short, " | ") + "]"
			}
			results[i] = result{o, v}
		}(i, script)
	}
	wg.Wait()
	for _, r := range results {
		obs.Line("%s", r.obs)
		oracle.Line("%s", r.verdict)
	}
}
