package main

import (
	"bufio"
	"fmt"
	"os"
	"regexp"
	"runtime"
	"strconv"
	"strings"
	"sync"
	"time"

	"github.com/shaardie/clemens/pkg/uci"
	"github.com/shaardie/clemens/pkg/verifsched"

	"verifharness/common"
)

// Key C06: interleavings of the real command handlers and the real search goroutine, forced
// through the scheduling points pkg/verifsched.Point (build tag verif).
//
// Case: "<dialogue> | <schedule>".
//
//	dialogue: one letter per GUI line: P `position startpos`, F `go depth 1` (finite), I `go infinite`,
//	          S `stop`, R `isready`.
//	schedule: either a string of labels produced by the model (Uci/Conc.v): 'r' = the reader thread
//	          makes its next step, a digit k = search goroutine k makes its next step, an upper-case
//	          letter A+i = asynchronous StartSearch activation i makes its next step;
//	          or "random:<seed>": at every step one of the threads that can move is chosen at random.
//
// One step of a thread = the code from the point it is parked at to its next point. After the
// schedule the execution is drained (everything that can move is released, oldest first).
// Observable: "out=<events> gst=<state> lines=<unconsumed> live=<search goroutines alive> lock=<0|1>"
//
//	with events ready | best | refusepos | refusego, then " steps=<what was released>" (not compared).
//
// Oracle: the property on the trace: no refusal, every consumed go answered by exactly one
// bestmove once nothing can move any more, every isready answered, the lock free, every output
// line whole.
func init() {
	props["C06"] = common.Prop{Gen: c06gen, Run: c06run}
}

var c06Line = map[byte]string{
	'P': "position startpos", 'F': "go depth 1", 'I': "go infinite", 'S': "stop", 'R': "isready",
	// further finite searches (all of them `go` with a limit): the acknowledged-but-ignored parameters and a time limit
	'N': "go depth 1 nodes 1000", 'M': "go depth 2 mate 3", 'T': "go movetime 15",
}

func c06IsGo(c byte) bool { return c == 'F' || c == 'I' || c == 'N' || c == 'M' || c == 'T' }

// every line the engine may print in these dialogues, whole
var c06LineShapes = []*regexp.Regexp{
	regexp.MustCompile(`^info depth \d+ score cp -?\d+ time \d+ nodes \d+ nps -?\d+ hashfull \d+ pv[ a-h1-8nbrq]*$`),
	regexp.MustCompile(`^info string calculated timeout -?\d+$`),
	regexp.MustCompile(`^info string windows \[-?\d+,-?\d+\] too small for value -?\d+\. Re-run search\.$`),
	regexp.MustCompile(`^info string (nodes limit|mate) not implemented$`),
}

// well-formed, stopped dialogues for the random-schedule tie
var c06Dialogues = []string{
	"PF", "PIS", "PFS", "PRIRSR", "PFPF", "PISPIS", "PFSPIS", "RPFR", "PISSR", "PPF", "PFRPISR", "PIRRS",
	"PFPFPF", "PISRPF", "PSIS", "PRFS", "PMR", "PNS", "PTR", "PMRPIS", "RPTSR",
}

func c06RandomDialogue(r *common.Rng) string {
	var b strings.Builder
	rounds := 1 + r.Intn(3)
	noise := func(max int) {
		for k := r.Intn(max + 1); k > 0; k-- {
			if r.Chance(1, 2) {
				b.WriteByte('R')
			} else {
				b.WriteByte('S')
			}
		}
	}
	for i := 0; i < rounds; i++ {
		noise(1)
		b.WriteByte('P')
		noise(1)
		if r.Chance(1, 2) {
			b.WriteByte("FFNMT"[r.Intn(5)])
			noise(2)
		} else {
			b.WriteByte('I')
			for k := r.Intn(2); k > 0; k-- {
				b.WriteByte('R')
			}
			b.WriteByte('S')
			noise(1)
		}
	}
	return b.String()
}

func c06gen(r *common.Rng, n int, shard int, out *common.Out) {
	k := 0
	if shard == 0 {
		for _, d := range c06Dialogues {
			for j := 0; j < 3 && k < n; j++ {
				out.Line("%s | random:%d", d, r.U64()%1000000)
				k++
			}
		}
	}
	for ; k < n; k++ {
		out.Line("%s | random:%d", c06RandomDialogue(r), r.U64()%1000000)
	}
}

var c06BestShape = regexp.MustCompile(`^bestmove [a-h][1-8][a-h][1-8][nbrq]?$`)

// ---------------------------------------------------------------- output capture

type c06Capture struct {
	mu    sync.Mutex
	lines []string
	syncs map[string]chan struct{}
	w     *os.File
	old   *os.File
}

func c06StartCapture() *c06Capture {
	rd, wr, err := os.Pipe()
	if err != nil {
		panic(err)
	}
	c := &c06Capture{w: wr, old: os.Stdout, syncs: map[string]chan struct{}{}}
	os.Stdout = wr
	go func() {
		sc := bufio.NewScanner(rd)
		sc.Buffer(make([]byte, 1<<20), 1<<24)
		for sc.Scan() {
			l := sc.Text()
			c.mu.Lock()
			// the marker is written on a line of its own; if the engine left a line unterminated the
			// marker is glued to it: the unterminated text is kept (and fails the line-shape test)
			if idx := strings.LastIndex(l, "@@sync "); idx >= 0 {
				if idx > 0 {
					c.lines = append(c.lines, l[:idx]+"<no line terminator>")
				}
				if ch, ok := c.syncs[l[idx:]]; ok {
					close(ch)
					delete(c.syncs, l[idx:])
				}
			} else {
				c.lines = append(c.lines, l)
			}
			c.mu.Unlock()
		}
	}()
	return c
}

var c06SyncN int

// drain waits until everything written to the pipe so far has been read.
func (c *c06Capture) drain() {
	c06SyncN++
	marker := "@@sync " + strconv.Itoa(c06SyncN)
	ch := make(chan struct{})
	c.mu.Lock()
	c.syncs[marker] = ch
	c.mu.Unlock()
	c.w.WriteString(marker + "\n")
	<-ch
}

func (c *c06Capture) take() []string {
	c.drain()
	c.mu.Lock()
	defer c.mu.Unlock()
	l := c.lines
	c.lines = nil
	return l
}

// ---------------------------------------------------------------- executor

type c06Exec struct {
	dialogue string
	cap      *c06Capture
	base     int
	events   []string // ready / best / refusepos / refusego / junk:<line>
	steps    []string
	rgid     uint64
	sgids    []uint64 // search goroutines in order of arrival at search.start
	ggids    []uint64 // asynchronous StartSearch activations in order of arrival
	seen     map[int]bool
	problem  string
}

func (e *c06Exec) classify(lines []string) {
	for _, l := range lines {
		switch {
		case l == "readyok":
			e.events = append(e.events, "ready")
		case c06BestShape.MatchString(l):
			e.events = append(e.events, "best")
		case l == "info string wrong idle state to set new position":
			e.events = append(e.events, "refusepos")
		case l == "info string no position is set":
			e.events = append(e.events, "refusego")
		default:
			known := false
			for _, re := range c06LineShapes {
				if re.MatchString(l) {
					known = true // search / parser output, not compared
				}
			}
			if !known {
				e.events = append(e.events, "junk:"+esc(l, true))
			}
		}
	}
}

func (e *c06Exec) snapshot() ([]verifsched.Arrival, int) {
	p, arr, rel := verifsched.Snapshot()
	for _, a := range p {
		if e.seen[a.Seq] {
			continue
		}
		e.seen[a.Seq] = true
		switch {
		case a.Name == "search.start":
			e.sgids = append(e.sgids, a.GID)
		case a.Name == "start.lock" && a.GID != e.rgid:
			e.ggids = append(e.ggids, a.GID)
		}
	}
	return p, rel["search.start"] - arr["search.return"]
}

// quiesce waits until every engine goroutine is parked at a point or inside a running search.
func (e *c06Exec) quiesce() bool {
	deadline := time.Now().Add(10 * time.Second)
	for {
		p, running := e.snapshot()
		if runtime.NumGoroutine()-e.base == len(p)+running {
			// stable twice in a row (a goroutine between its last point and its exit is counted by
			// NumGoroutine until it is gone, which keeps the equation false until then)
			return true
		}
		if time.Now().After(deadline) {
			e.problem = fmt.Sprintf("not quiescent: goroutines %d, parked %d, running %d", runtime.NumGoroutine()-e.base, len(p), running)
			return false
		}
		runtime.Gosched()
		time.Sleep(20 * time.Microsecond)
	}
}

func (e *c06Exec) bestCount() int {
	n := 0
	for _, ev := range e.events {
		if ev == "best" {
			n++
		}
	}
	return n
}

// grantable: may this parked goroutine be released now?
func (e *c06Exec) grantable(a verifsched.Arrival) bool {
	switch {
	case a.Name == "reader.eof":
		return false
	case strings.HasPrefix(a.Name, "reader.line."):
		i, _ := strconv.Atoi(a.Name[len("reader.line."):])
		c := e.dialogue[i]
		if c == 'P' || c06IsGo(c) {
			// the GUI sends position/go only after the previous bestmove
			gos := 0
			for _, x := range e.dialogue[:i] {
				if c06IsGo(byte(x)) {
					gos++
				}
			}
			return e.bestCount() == gos
		}
		return true
	case strings.HasSuffix(a.Name, ".lock"):
		return uci.VerifLockFree()
	}
	return true
}

func (e *c06Exec) release(a verifsched.Arrival) bool {
	who := "?"
	if a.GID == e.rgid {
		who = "r"
	}
	for k, g := range e.sgids {
		if g == a.GID {
			who = strconv.Itoa(k)
		}
	}
	for k, g := range e.ggids {
		if g == a.GID {
			who = string(rune('A' + k))
		}
	}
	e.steps = append(e.steps, who+":"+a.Name)
	verifsched.Release(a.Seq)
	if !e.quiesce() {
		return false
	}
	e.classify(e.cap.take())
	return true
}

// waitFor waits until goroutine gid is parked (it may be inside a running search).
func (e *c06Exec) waitFor(gid uint64, d time.Duration) (verifsched.Arrival, bool) {
	deadline := time.Now().Add(d)
	for {
		p, _ := e.snapshot()
		for _, a := range p {
			if a.GID == gid {
				return a, true
			}
		}
		if time.Now().After(deadline) {
			return verifsched.Arrival{}, false
		}
		time.Sleep(50 * time.Microsecond)
	}
}

func c06Execute(dialogue, schedule string, cp *c06Capture) (obs string, verdict string) {
	uci.VerifReset()
	cp.take()
	e := &c06Exec{dialogue: dialogue, cap: cp, seen: map[int]bool{}}
	verifsched.Enable()
	e.base = runtime.NumGoroutine()
	readerDone := make(chan struct{})
	go func() {
		defer close(readerDone)
		for i := 0; i < len(dialogue); i++ {
			verifsched.Point("reader.line." + strconv.Itoa(i))
			uci.VerifHandleLine(c06Line[dialogue[i]])
		}
		verifsched.Point("reader.eof")
	}()
	ok := e.quiesce()
	if ok {
		p, _ := e.snapshot()
		if len(p) == 1 {
			e.rgid = p[0].GID
		}
	}
	diverged := ""
	if ok && strings.HasPrefix(schedule, "random:") {
		seed, _ := strconv.ParseUint(schedule[len("random:"):], 10, 64)
		rng := common.NewRng(seed)
		for step := 0; step < 400 && ok; step++ {
			p, running := e.snapshot()
			var cand []verifsched.Arrival
			for _, a := range p {
				if e.grantable(a) {
					cand = append(cand, a)
				}
			}
			if len(cand) == 0 {
				if running > 0 {
					// a search is running: give it a moment to return (finite, or cancelled)
					before := len(p)
					deadline := time.Now().Add(300 * time.Millisecond)
					for time.Now().Before(deadline) {
						p2, _ := e.snapshot()
						if len(p2) > before {
							break
						}
						time.Sleep(100 * time.Microsecond)
					}
					p2, _ := e.snapshot()
					if len(p2) > before {
						continue
					}
				}
				break
			}
			ok = e.release(cand[rng.Intn(len(cand))])
		}
	} else if ok {
		for i := 0; i < len(schedule) && ok; i++ {
			l := schedule[i]
			var gid uint64
			switch {
			case l == 'r':
				gid = e.rgid
			case l >= '0' && l <= '9':
				if int(l-'0') >= len(e.sgids) {
					diverged = fmt.Sprintf("step %d: no search goroutine %c", i, l)
				} else {
					gid = e.sgids[l-'0']
				}
			case l >= 'A' && l <= 'Z':
				if int(l-'A') >= len(e.ggids) {
					diverged = fmt.Sprintf("step %d: no asynchronous StartSearch %c", i, l)
				} else {
					gid = e.ggids[l-'A']
				}
			}
			if diverged != "" {
				break
			}
			a, found := e.waitFor(gid, 10*time.Second)
			if !found {
				diverged = fmt.Sprintf("step %d: thread %c is not at a point", i, l)
				break
			}
			if !e.grantable(a) {
				diverged = fmt.Sprintf("step %d: thread %c cannot move at %s", i, l, a.Name)
				break
			}
			ok = e.release(a)
		}
	}
	atEnd := ""
	if ok {
		// the forced part is over: state of the real engine now
		atEnd = e.observe()
		// drain: whatever can still move, oldest first, so that the oracle judges a complete execution
		for step := 0; step < 400 && ok; step++ {
			p, running := e.snapshot()
			moved := false
			for _, a := range p {
				if e.grantable(a) {
					ok = e.release(a)
					moved = true
					break
				}
			}
			if !moved {
				if running > 0 {
					before := len(p)
					deadline := time.Now().Add(300 * time.Millisecond)
					for time.Now().Before(deadline) {
						p2, _ := e.snapshot()
						if len(p2) > before {
							break
						}
						time.Sleep(100 * time.Microsecond)
					}
					if p2, _ := e.snapshot(); len(p2) > before {
						continue
					}
				}
				break
			}
		}
	}
	final := ""
	if ok {
		final = e.observe()
	}
	verdict = e.judge(ok)
	// clean up: let everything run out, stop a search that is still going
	verifsched.Disable()
	<-readerDone
	// a search may still be running (or about to be started by an asynchronous StartSearch): keep
	// sending stop until every engine goroutine is gone, so that nothing leaks into the next case
	for i := 0; i < 2500 && runtime.NumGoroutine() > e.base; i++ {
		uci.VerifHandleLine("stop")
		time.Sleep(200 * time.Microsecond)
	}
	cp.take()
	if !ok {
		return "executor: " + e.problem + " steps=" + strings.Join(e.steps, ","), verdict
	}
	if diverged != "" {
		return "diverged: " + diverged + " final: " + final + " steps=" + strings.Join(e.steps, ","), verdict
	}
	if strings.HasPrefix(schedule, "random:") {
		return final + " steps=" + strings.Join(e.steps, ","), verdict
	}
	return atEnd + " steps=" + strings.Join(e.steps, ","), verdict
}

func (e *c06Exec) observe() string {
	p, running := e.snapshot()
	consumed := 0
	live := running
	for _, a := range p {
		if strings.HasPrefix(a.Name, "search.") {
			live++
		}
	}
	// lines consumed = index of the reader's parked line, or all of them
	consumed = len(e.dialogue)
	for _, a := range p {
		if strings.HasPrefix(a.Name, "reader.line.") {
			consumed, _ = strconv.Atoi(a.Name[len("reader.line."):])
		}
	}
	lock := 1
	if uci.VerifLockFree() {
		lock = 0
	}
	return fmt.Sprintf("out=%s gst=%d lines=%d live=%d lock=%d", strings.Join(e.events, ","), uci.VerifState(),
		len(e.dialogue)-consumed, live, lock)
}

// judge evaluates the property on the complete (drained) execution.
func (e *c06Exec) judge(ok bool) string {
	if !ok {
		return "FAIL [C06] the engine did not come to rest: " + e.problem
	}
	var bad []string
	p, _ := e.snapshot()
	consumed := len(e.dialogue)
	for _, a := range p {
		if strings.HasPrefix(a.Name, "reader.line.") {
			consumed, _ = strconv.Atoi(a.Name[len("reader.line."):])
		}
	}
	gos, readies := 0, 0
	for _, c := range e.dialogue[:consumed] {
		if c06IsGo(byte(c)) {
			gos++
		}
		if c == 'R' {
			readies++
		}
	}
	best, ready := 0, 0
	for _, ev := range e.events {
		switch {
		case ev == "best":
			best++
		case ev == "ready":
			ready++
		case ev == "refusepos":
			bad = append(bad, "a position command was refused although the previous bestmove had been printed")
		case ev == "refusego":
			bad = append(bad, "a go command was refused although a position had been set")
		case strings.HasPrefix(ev, "junk:"):
			bad = append(bad, "unexpected or torn output line "+ev[5:])
		}
	}
	if best > gos {
		bad = append(bad, fmt.Sprintf("%d bestmove lines for %d go commands", best, gos))
	}
	c05 := ""
	if best < gos {
		bad = append(bad, fmt.Sprintf("nothing can move any more but only %d bestmove for %d go commands (go/stop lost)", best, gos))
		// the same execution seen from C05: a go (with its stop consumed, dialogues are well formed) that is never answered
		c05 = fmt.Sprintf(" ;; [C05] a go is never answered although the dialogue (with the stop of every go infinite) has been consumed: %d bestmove for %d go [dialogue %s steps %s]", best, gos, e.dialogue, strings.Join(e.steps, ","))
	}
	if consumed < len(e.dialogue) && best >= gos {
		bad = append(bad, fmt.Sprintf("the reader is stuck before line %d", consumed))
	}
	if ready != readies {
		bad = append(bad, fmt.Sprintf("%d readyok for %d isready", ready, readies))
	}
	if !uci.VerifLockFree() {
		bad = append(bad, "the handler mutex is still held")
	}
	if len(bad) == 0 {
		return "OK"
	}
	return "FAIL [C06] " + strings.Join(bad, "; ") + " [steps " + strings.Join(e.steps, ",") + "]" + c05
}

func c06run(cases []string, obs, oracle *common.Out) {
	cp := c06StartCapture()
	base := runtime.NumGoroutine()
	leaked := 0
	for _, line := range cases {
		parts := strings.Split(line, " | ")
		if len(parts) != 2 {
			obs.Line("badcase")
			oracle.Line("OK")
			continue
		}
		if leaked >= 2 {
			// earlier cases left searches running that nothing can stop any more (each was reported as a failure):
			// they would only slow everything down, so the remaining cases of this shard are not run
			obs.Line("skipped: an earlier case of this shard left a search running")
			oracle.Line("OK")
			continue
		}
		o, v := c06Execute(strings.TrimSpace(parts[0]), strings.TrimSpace(parts[1]), cp)
		if runtime.NumGoroutine() > base {
			leaked++
			base = runtime.NumGoroutine()
			if v == "OK" {
				v = "FAIL [C06] engine goroutines are still running after the dialogue ended and stop was sent (a search that cannot be stopped) [case " + line + "]"
			}
		}
		obs.Line("%s", o)
		oracle.Line("%s", v)
	}
	os.Stdout = cp.old
}
