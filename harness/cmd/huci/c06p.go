package main

import (
	"bufio"
	"fmt"
	"io"
	"os"
	"os/exec"
	"strings"
	"time"

	"verifharness/common"
)

// Key C06P (tested, not proved): the real engine process, commands written back-to-back in ONE write.
// Case: rounds separated by " / "; each round is a list of lines separated by ";" that is written
// in a single write once the previous round's bestmove has arrived. Every round must be answered by
// exactly one bestmove within the slack, every isready by a readyok, no refusal may appear, every
// output line must be whole.
// Observable: "ok" or what was missing.
func init() { props["C06P"] = common.Prop{Gen: c06pgen, Run: c06prun} }

var c06pScripts = []string{
	"position startpos;go infinite;stop",
	"isready;position startpos;go infinite;isready;stop;isready",
	"position startpos;go depth 1 / position startpos moves e2e4;go depth 1",
	"position startpos;go infinite;stop / position startpos moves e2e4;go infinite;stop / position startpos moves e2e4 e7e5;go depth 2",
	"position startpos;go depth 2;stop;isready / position startpos moves d2d4;go infinite;isready;stop",
	"position startpos;go infinite;stop;stop;isready",
	"position fen 6k1/5ppp/8/8/8/8/8/R3K3 w Q - 0 1;go infinite;stop / position startpos;go depth 1",
	// an "infinite" search that runs out of depth by itself (iterative deepening stops at depth 100: bare kings in about half a
	// second, a mated or stalemated root at once) and the stop arriving only afterwards ("~ms" = pause inside the round): the go
	// is still answered by exactly one bestmove and the next round is accepted
	"position fen 8/8/8/8/8/8/8/K6k w - - 0 1;go infinite;~1500;stop / position startpos;go depth 1",
	"position fen rnb1kbnr/pppp1ppp/8/4p3/6Pq/5P2/PPPPP2P/RNBQKBNR w KQkq - 1 3;go infinite;~300;stop;isready / position startpos;go depth 1",
	"position fen 7k/5Q2/6K1/8/8/8/8/8 b - - 0 1;go;~300;stop / position startpos;go infinite;stop",
}

func c06pgen(r *common.Rng, n int, shard int, out *common.Out) {
	k := 0
	if shard == 0 {
		for _, s := range c06pScripts {
			if k < n {
				out.Line("%s", s)
				k++
			}
		}
	}
	moves := []string{"", " moves e2e4", " moves e2e4 e7e5", " moves d2d4 d7d5 c2c4", " moves g1f3"}
	for ; k < n; k++ {
		var rounds []string
		for i := 1 + r.Intn(3); i > 0; i-- {
			var l []string
			if r.Chance(1, 3) {
				l = append(l, "isready")
			}
			l = append(l, "position startpos"+moves[r.Intn(len(moves))])
			if r.Chance(1, 2) {
				l = append(l, fmt.Sprintf("go depth %d", 1+r.Intn(2)))
				if r.Chance(1, 3) {
					l = append(l, "stop")
				}
			} else {
				l = append(l, "go infinite")
				if r.Chance(1, 3) {
					l = append(l, "isready")
				}
				l = append(l, "stop")
			}
			if r.Chance(1, 3) {
				l = append(l, "isready")
			}
			rounds = append(rounds, strings.Join(l, ";"))
		}
		out.Line("%s", strings.Join(rounds, " / "))
	}
}

func c06pOne(bin, script string, slack time.Duration) string {
	cmd := exec.Command(bin)
	stdin, _ := cmd.StdinPipe()
	stdout, _ := cmd.StdoutPipe()
	if err := cmd.Start(); err != nil {
		return "died"
	}
	defer cmd.Process.Kill()
	lines := make(chan string, 1<<16)
	go func() {
		sc := bufio.NewScanner(stdout)
		sc.Buffer(make([]byte, 1<<20), 1<<24)
		for sc.Scan() {
			select {
			case lines <- sc.Text():
			default:
			}
		}
		close(lines)
	}()
	// wait for the start-up (magic number search) to be over
	io.WriteString(stdin, "isready\n")
	deadline := time.After(20 * time.Second)
	for started := false; !started; {
		select {
		case l, ok := <-lines:
			if !ok {
				return "died"
			}
			started = l == "readyok"
		case <-deadline:
			return "no readyok at start"
		}
	}
	for ri, round := range strings.Split(script, " / ") {
		ls := strings.Split(round, ";")
		wantReady := 0
		for _, l := range ls {
			if l == "isready" {
				wantReady++
			}
		}
		// "~ms" elements are pauses: the lines before one are written in one write, then the harness sleeps
		var chunk []string
		flush := func() {
			if len(chunk) > 0 {
				io.WriteString(stdin, strings.Join(chunk, "\n")+"\n")
				chunk = nil
			}
		}
		for _, l := range ls {
			if len(l) > 1 && l[0] == '~' {
				flush()
				ms := 0
				fmt.Sscanf(l[1:], "%d", &ms)
				time.Sleep(time.Duration(ms) * time.Millisecond)
				continue
			}
			chunk = append(chunk, l)
		}
		flush()
		best, ready := 0, 0
		deadline := time.After(slack)
	wait:
		for best < 1 || ready < wantReady {
			select {
			case l, ok := <-lines:
				if !ok {
					return fmt.Sprintf("round %d: died", ri)
				}
				switch {
				case strings.HasPrefix(l, "bestmove "):
					best++
				case l == "readyok":
					ready++
				case l == "info string wrong idle state to set new position" || l == "info string no position is set":
					return fmt.Sprintf("round %d: refused (%s)", ri, l)
				case strings.HasPrefix(l, "info "):
				default:
					return fmt.Sprintf("round %d: torn or unexpected line %q", ri, l)
				}
			case <-deadline:
				break wait
			}
		}
		if best != 1 || ready != wantReady {
			return fmt.Sprintf("round %d: %d bestmove (want 1), %d readyok (want %d)", ri, best, ready, wantReady)
		}
	}
	// nothing further may arrive (a second bestmove)
	extra := time.After(150 * time.Millisecond)
	for {
		select {
		case l, ok := <-lines:
			if !ok {
				return "ok"
			}
			if strings.HasPrefix(l, "bestmove ") {
				return "extra bestmove"
			}
		case <-extra:
			return "ok"
		}
	}
}

func c06prun(cases []string, obs, oracle *common.Out) {
	bin, err := c07pbuild()
	if err != nil {
		for range cases {
			obs.Line("nobuild")
			oracle.Line("FAIL [C06] the engine binary does not build: %v", err)
		}
		return
	}
	defer os.RemoveAll(strings.TrimSuffix(bin, "/engine"))
	const slack = 3 * time.Second
	type res struct{ obs, verdict string }
	results := make([]res, len(cases))
	sem := make(chan struct{}, 4)
	done := make(chan int, len(cases))
	for i, line := range cases {
		go func(i int, line string) {
			sem <- struct{}{}
			defer func() { <-sem; done <- i }()
			o := c06pOne(bin, line, slack)
			v := "OK"
			if o != "ok" {
				// machine load must not raise a false alarm: it counts only if it repeats twice more
				o2 := c06pOne(bin, line, slack)
				o3 := "ok"
				if o2 != "ok" {
					o3 = c06pOne(bin, line, slack)
				}
				if o2 != "ok" && o3 != "ok" {
					v = fmt.Sprintf("FAIL [C06] real process, lines written back-to-back: %s (three attempts: %s | %s | %s)", line, o, o2, o3)
					// the same runs read for C05: a round (its go followed by stop where it is infinite) that is not answered within the limit
					v += fmt.Sprintf(" ;; [C05] real process, a go with its stop directly behind it is not answered within 3 s (or the engine dies): %s (three attempts: %s | %s | %s)", line, o, o2, o3)
				} else {
					o = "ok"
				}
			}
			results[i] = res{o, v}
		}(i, line)
	}
	for range cases {
		<-done
	}
	for _, r := range results {
		obs.Line("%s", r.obs)
		oracle.Line("%s", r.verdict)
	}
}
