package main

import (
	"bufio"
	"fmt"
	"io"
	"os"
	"os/exec"
	"strconv"
	"strings"
	"time"

	"verifharness/common"
)

// Key C05P (C05 clause e, tested not proved): wall-clock behaviour of the real engine process.
// Case: "<limit ms> <kind> | <position command> | <go command>"; kind = limit (the answer must come
// within limit + slack), stop (go infinite, `stop` after <limit> ms, answer must come within slack).
// Observable: "answered" or "late <ms>" / "silent" / "died".
func init() { props["C05P"] = common.Prop{Gen: c05pgen, Run: c05prun} }

var c05pPositions = []string{
	"position startpos",
	"position startpos moves e2e4 e7e5 g1f3",
	"position fen r3k2r/p1ppqpb1/bn2pnp1/3PN3/1p2P3/2N2Q1p/PPPBBPPP/R3K2R w KQkq - 0 1",
	"position fen rnb1kbnr/pppp1ppp/8/4p3/6Pq/5P2/PPPPP2P/RNBQKBNR w KQkq - 1 3", // checkmated
	"position fen 7k/5Q2/6K1/8/8/8/8/8 b - - 0 1",                                // stalemated
	"position fen 8/8/8/8/8/8/8/K6k w - - 0 1",
	"position fen 6k1/5ppp/8/8/8/8/8/R3K3 w Q - 0 1",
}

func c05pgen(r *common.Rng, n int, shard int, out *common.Out) {
	emit := func(limit int, kind, pos, goCmd string) { out.Line("%d %s | %s | %s", limit, kind, pos, goCmd) }
	if shard == 0 {
		for _, p := range c05pPositions {
			emit(250, "limit", p, "go movetime 250")
			emit(150, "stop", p, "go infinite")
		}
		emit(1000, "limit", c05pPositions[0], "go depth 3")
		emit(1000, "limit", c05pPositions[3], "go depth 5")
		emit(1000, "limit", c05pPositions[4], "go")
		emit(400, "limit", c05pPositions[0], "go wtime 400 btime 400")
		emit(100, "limit", c05pPositions[0], "go wtime 100 btime 100 winc 5000 binc 5000")
	}
	for i := 0; i < n; i++ {
		p := c05pPositions[r.Intn(len(c05pPositions))]
		switch r.Intn(4) {
		case 0:
			ms := 60 + r.Intn(400)
			emit(ms, "limit", p, fmt.Sprintf("go movetime %d", ms))
		case 1:
			emit(20+r.Intn(300), "stop", p, "go infinite")
		case 2:
			t := 200 + r.Intn(2000)
			emit(t, "limit", p, fmt.Sprintf("go wtime %d btime %d winc %d binc %d", t, t, r.Intn(3000), r.Intn(3000)))
		case 3:
			emit(1500, "limit", p, fmt.Sprintf("go depth %d", 1+r.Intn(3)))
		}
	}
}

func c05pOne(bin string, limit int, kind, pos, goCmd string, slack time.Duration) string {
	cmd := exec.Command(bin)
	stdin, _ := cmd.StdinPipe()
	stdout, _ := cmd.StdoutPipe()
	if err := cmd.Start(); err != nil {
		return "died"
	}
	defer cmd.Process.Kill()
	lines := make(chan string, 4096)
	go func() {
		sc := bufio.NewScanner(stdout)
		sc.Buffer(make([]byte, 1<<20), 1<<24)
		for sc.Scan() {
			select {
			case lines <- sc.Text():
			default:
			}
		}
		close(lines)
	}()
	wait := func(prefix string, d time.Duration) (bool, bool) {
		deadline := time.After(d)
		for {
			select {
			case l, ok := <-lines:
				if !ok {
					return false, true
				}
				if strings.HasPrefix(l, prefix) {
					return true, false
				}
			case <-deadline:
				return false, false
			}
		}
	}
	io.WriteString(stdin, "isready\n")
	if ok, _ := wait("readyok", 15*time.Second); !ok {
		return "died"
	}
	io.WriteString(stdin, pos+"\n"+goCmd+"\n")
	start := time.Now()
	budget := time.Duration(limit)*time.Millisecond + slack
	if kind == "stop" {
		time.Sleep(time.Duration(limit) * time.Millisecond)
		io.WriteString(stdin, "stop\n")
		start = time.Now()
		budget = slack
	}
	ok, closed := wait("bestmove", budget)
	if ok {
		return "answered"
	}
	if closed {
		return "died"
	}
	// how late? give it a little longer to tell "late" from "silent"
	if ok2, _ := wait("bestmove", 3*time.Second); ok2 {
		return fmt.Sprintf("late %d", time.Since(start).Milliseconds())
	}
	return "silent"
}

func c05prun(cases []string, obs, oracle *common.Out) {
	bin, err := c07pbuild()
	if err != nil {
		for range cases {
			obs.Line("nobuild")
			oracle.Line("FAIL [C05] the engine binary does not build: %v", err)
		}
		return
	}
	defer os.RemoveAll(strings.TrimSuffix(bin, "/engine"))
	const slack = 1000 * time.Millisecond
	type res struct{ obs, verdict string }
	results := make([]res, len(cases))
	sem := make(chan struct{}, 4)
	done := make(chan int, len(cases))
	for i, line := range cases {
		go func(i int, line string) {
			sem <- struct{}{}
			defer func() { <-sem; done <- i }()
			parts := strings.Split(line, " | ")
			head := strings.Fields(parts[0])
			limit, _ := strconv.Atoi(head[0])
			o := c05pOne(bin, limit, head[1], parts[1], parts[2], slack)
			v := "OK"
			if o != "answered" {
				// machine load must not raise a false alarm: an overrun counts only if it repeats twice
				o2 := c05pOne(bin, limit, head[1], parts[1], parts[2], slack)
				o3 := "answered"
				if o2 != "answered" {
					o3 = c05pOne(bin, limit, head[1], parts[1], parts[2], slack)
				}
				if o2 != "answered" && o3 != "answered" {
					v = fmt.Sprintf("FAIL [C05] no bestmove within the limit plus %v in three attempts (%s, %s, %s): %s", slack, o, o2, o3, line)
				} else {
					o = "answered"
				}
			}
			results[i] = res{o, v}
		}(i, line)
	}
	for range cases {
		<-done
	}
	for _, r := range results {
		obs.Line("%s", r.obs)
		oracle.Line("%s", r.verdict)
	}
}
