// huci: harness for the properties anchored in pkg/uci (C06, C07).
package main

import "verifharness/common"

var props = map[string]common.Prop{}

func main() { common.Main(props) }
