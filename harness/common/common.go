// Package common: shared helpers of the verification harness (PRNG, file output).
package common

import (
	"bufio"
	"fmt"
	"os"
	"strings"
)

// SplitMix64: every random choice of a run derives from one seed.
type Rng struct{ s uint64 }

func NewRng(seed uint64) *Rng {
	// scramble the seed so that consecutive seeds give unrelated streams
	z := seed + 0x632BE59BD9B4E019
	z = (z ^ (z >> 30)) * 0xBF58476D1CE4E5B9
	z = (z ^ (z >> 27)) * 0x94D049BB133111EB
	return &Rng{s: z ^ (z >> 31)}
}

func (r *Rng) U64() uint64 {
	r.s += 0x9E3779B97F4A7C15
	z := r.s
	z = (z ^ (z >> 30)) * 0xBF58476D1CE4E5B9
	z = (z ^ (z >> 27)) * 0x94D049BB133111EB
	return z ^ (z >> 31)
}

// Intn returns a value in [0,n).
func (r *Rng) Intn(n int) int {
	if n <= 0 {
		return 0
	}
	return int(r.U64() % uint64(n))
}

func (r *Rng) Chance(num, den int) bool { return r.Intn(den) < num }

// Fork derives an independent stream (used so that adding cases to one generator does not
// shift every other generator's choices).
func (r *Rng) Fork(tag uint64) *Rng { return NewRng(r.U64() ^ tag*0xD1B54A32D192ED03) }

type Out struct {
	f *os.File
	w *bufio.Writer
}

func Create(path string) *Out {
	f, err := os.Create(path)
	if err != nil {
		panic(err)
	}
	return &Out{f: f, w: bufio.NewWriterSize(f, 1<<20)}
}
func (o *Out) Line(format string, a ...any) {
	fmt.Fprintf(o.w, format, a...)
	o.w.WriteByte('\n')
}
func (o *Out) Close() { o.w.Flush(); o.f.Close() }

func ReadLines(path string) []string {
	b, err := os.ReadFile(path)
	if err != nil {
		panic(err)
	}
	s := strings.TrimRight(string(b), "\n")
	if s == "" {
		return nil
	}
	return strings.Split(s, "\n")
}

// Protect runs f and converts a Go panic into the string "panic".
func Protect(f func() string) (res string) {
	defer func() {
		if r := recover(); r != nil {
			res = "panic"
		}
	}()
	return f()
}
