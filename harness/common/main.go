package common

import (
	"fmt"
	"os"
	"strconv"
)

// Prop is one harness key: a case generator and a runner that prints, per case, the
// implementation's observable line and the oracle's verdict line (OK / FAIL ...).
type Prop struct {
	Gen func(rng *Rng, n int, shard int, out *Out)
	Run func(cases []string, obs, oracle *Out)
}

// Main implements the harness command line:
//
//	<bin> gen <key> <seed> <n> <dir> [shard]   writes <dir>/cases.txt (corpus and grids only in shard 0)
//	<bin> run <key> <dir>                      reads <dir>/cases.txt, writes <dir>/go_obs.txt, <dir>/oracle.txt
func Main(props map[string]Prop) {
	if len(os.Args) < 4 {
		fmt.Fprintln(os.Stderr, "usage: gen|run <key> ...")
		os.Exit(2)
	}
	p, ok := props[os.Args[2]]
	if !ok {
		fmt.Fprintln(os.Stderr, "unknown key", os.Args[2])
		os.Exit(2)
	}
	switch os.Args[1] {
	case "gen":
		seed, _ := strconv.ParseUint(os.Args[3], 10, 64)
		n, _ := strconv.Atoi(os.Args[4])
		dir := os.Args[5]
		shard := 0
		if len(os.Args) > 6 {
			shard, _ = strconv.Atoi(os.Args[6])
		}
		out := Create(dir + "/cases.txt")
		p.Gen(NewRng(seed), n, shard, out)
		out.Close()
	case "run":
		dir := os.Args[3]
		cases := ReadLines(dir + "/cases.txt")
		obs := Create(dir + "/go_obs.txt")
		oracle := Create(dir + "/oracle.txt")
		p.Run(cases, obs, oracle)
		obs.Close()
		oracle.Close()
	default:
		os.Exit(2)
	}
}
