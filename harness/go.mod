module verifharness

go 1.22.0

require github.com/shaardie/clemens v0.0.0

replace github.com/shaardie/clemens => /repo
