// Package poslib: position helpers shared by the harness binaries — canonical text form of the
// engine's Position, playouts, and a deliberately naive mailbox-only reference used by the oracles
// (it shares no code with the engine's bitboard machinery).
package poslib

import (
	"fmt"
	"strings"

	"github.com/shaardie/clemens/pkg/move"
	"github.com/shaardie/clemens/pkg/position"
	"github.com/shaardie/clemens/pkg/types"
	"verifharness/common"
)

// PosLine prints every field of the struct in the format of ocaml/posio.ml.
func PosLine(p *position.Position) string {
	var sb strings.Builder
	for c := 0; c < 2; c++ {
		for t := 0; t < 6; t++ {
			fmt.Fprintf(&sb, "%x ", uint64(p.PiecesBitboard[c][t]))
		}
	}
	fmt.Fprintf(&sb, "%x %x %x %x ", p.ZobristHash, uint64(p.AllPieces), uint64(p.AllPiecesByColor[0]), uint64(p.AllPiecesByColor[1]))
	for s := 0; s < 64; s++ {
		fmt.Fprintf(&sb, "%02x", uint8(p.PiecesBoard[s]))
	}
	fmt.Fprintf(&sb, " %d %d %d %d %d", p.SideToMove, p.Castling, p.EnPassant, p.HalfMoveClock, p.Ply)
	return sb.String()
}

func Hex(s string) string { return fmt.Sprintf("%x", s) }

// PseudoLegal / Legal moves exactly as search and perft obtain them.
func PseudoLegal(p *position.Position) []move.Move {
	ml := move.NewMoveList()
	p.GeneratePseudoLegalMoves(ml)
	r := make([]move.Move, ml.Length())
	for i := uint8(0); i < ml.Length(); i++ {
		r[i] = *ml.Get(i)
	}
	return r
}
func Captures(p *position.Position) []move.Move {
	ml := move.NewMoveList()
	p.GeneratePseudoLegalCaptures(ml)
	r := make([]move.Move, ml.Length())
	for i := uint8(0); i < ml.Length(); i++ {
		r[i] = *ml.Get(i)
	}
	return r
}
func Legal(p *position.Position) []move.Move {
	var r []move.Move
	for _, m := range PseudoLegal(p) {
		q := *p
		q.MakeMove(m)
		if q.IsLegal() {
			r = append(r, m)
		}
	}
	return r
}

func MovesStr(ms []move.Move) string {
	ss := make([]string, len(ms))
	for i, m := range ms {
		ss[i] = fmt.Sprint(uint32(m))
	}
	return strings.Join(ss, ",")
}

// Curated start positions: perft suite, castling / en-passant / promotion edge cases, sparse material.
var CuratedFens = []string{
	"rnbqkbnr/pppppppp/8/8/8/8/PPPPPPPP/RNBQKBNR w KQkq - 0 1",
	"r3k2r/p1ppqpb1/bn2pnp1/3PN3/1p2P3/2N2Q1p/PPPBBPPP/R3K2R w KQkq - 0 1",
	"8/2p5/3p4/KP5r/1R3p1k/8/4P1P1/8 w - - 0 1",
	"r3k2r/Pppp1ppp/1b3nbN/nP6/BBP1P3/q4N2/Pp1P2PP/R2Q1RK1 w kq - 0 1",
	"r2q1rk1/pP1p2pp/Q4n2/bbp1p3/Np6/1B3NBn/pPPP1PPP/R3K2R b KQ - 0 1",
	"rnbq1k1r/pp1Pbppp/2p5/8/2B5/8/PPP1NnPP/RNBQK2R w KQ - 1 8",
	"r4rk1/1pp1qppp/p1np1n2/2b1p1B1/2B1P1b1/P1NP1N2/1PP1QPPP/R4RK1 w - - 0 10",
	"r3k2r/8/8/8/8/8/8/R3K2R w KQkq - 0 1",
	"r3k2r/8/8/8/8/8/8/R3K2R b KQkq - 0 1",
	"4k3/8/8/8/8/8/4P3/4K3 w - - 0 1",
	"8/8/8/8/8/8/8/K6k w - - 0 1",
	"8/P6k/8/8/8/8/p6K/8 w - - 0 1",
	"n1n5/PPPk4/8/8/8/8/4Kppp/5N1N b - - 0 1",
	"8/8/8/2k5/2pP4/8/B7/4K3 b - d3 0 3",
	"8/8/1k6/2b5/2pP4/8/5K2/8 b - d3 0 1",
	"8/8/8/8/k2Pp2R/8/8/4K3 b - d3 0 1",
	"3k4/3p4/8/K1P4r/8/8/8/8 b - - 0 1",
	"5k2/8/8/8/8/8/8/4K2R w K - 0 1",
	"3k4/8/8/8/8/8/8/R3K3 w Q - 0 1",
	"r3k2r/1b4bq/8/8/8/8/7B/R3K2R w KQkq - 0 1",
	"r3k2r/8/3Q4/8/8/5q2/8/R3K2R b KQkq - 0 1",
	"2K2r2/4P3/8/8/8/8/8/3k4 w - - 0 1",
	"8/8/1P2K3/8/2n5/1q6/8/5k2 b - - 0 1",
	"4k3/1P6/8/8/8/8/K7/8 w - - 0 1",
	"8/k1P5/8/1K6/8/8/8/8 w - - 0 1",
	"K1k5/8/P7/8/8/8/8/8 w - - 0 1",
	"8/8/2k5/5q2/5n2/8/5K2/8 b - - 0 1",
	"rnb1kbnr/pppp1ppp/8/4p3/6Pq/5P2/PPPPP2P/RNBQKBNR w KQkq - 1 3",
	"7k/5Q2/6K1/8/8/8/8/8 b - - 0 1",
	"2QQQQ1Q/2QQQ3/8/8/8/8/k7/7K w - - 0 1",
	"rnbqkb1r/pp1p1pPp/8/2p1pP2/1P1P4/3P3P/P1P1P3/RNBQKBNR w KQkq e6 0 1",
	"r1bqkbnr/pppp1ppp/2n5/4p3/4P3/5N2/PPPP1PPP/RNBQKB1R w KQkq - 2 3",
	"4k2r/8/8/8/8/8/8/4K2R w Kk - 99 60",
	"4k3/8/8/8/8/8/4P3/4K3 w - - 100 80",
	// the two known 218-move positions (the maximum for legal chess) and a colour-reversed one: the move list is a
	// fixed-capacity buffer ([255]Move), so the highest mobility legal chess allows must fit
	"R6R/3Q4/1Q4Q1/4Q3/2Q4Q/Q4Q2/pp1Q4/kBNN1KB1 w - - 0 1",
	"3Q4/1Q4Q1/4Q3/2Q4R/Q4Q2/3Q4/1Q4Rp/1K1BBNNk w - - 0 1",
	"Kbnn1kb1/PP1q4/q4q2/2q4q/4q3/1q4q1/3q4/r6r b - - 0 1",
}

// Bias of a playout: weights for choosing among legal moves.
func moveWeight(p *position.Position, m move.Move) int {
	w := 2
	switch m.GetMoveType() {
	case move.CASTLING:
		w += 30
	case move.EN_PASSANT:
		w += 40
	case move.PROMOTION:
		w += 12
	}
	src, dst := m.GetSourceSquare(), m.GetTargetSquare()
	pt := p.PiecesBoard[src].Type()
	if p.PiecesBoard[dst] != types.NO_PIECE {
		w += 4
		if dst == 0 || dst == 7 || dst == 56 || dst == 63 {
			w += 10 // capture on a rook home square
		}
	}
	if pt == types.PAWN {
		d := int(src) - int(dst)
		if d == 16 || d == -16 {
			w += 4
		}
	}
	if pt == types.KING || pt == types.ROOK {
		w += 1
	}
	return w
}

// Playout plays up to maxPlies random legal moves from p. biased: special moves are preferred.
// visit is called with the position before each move and the chosen move; return false to stop.
func Playout(rng *common.Rng, p position.Position, maxPlies int, biased bool, visit func(pos *position.Position, legal []move.Move, chosen move.Move) bool) position.Position {
	for i := 0; i < maxPlies; i++ {
		legal := Legal(&p)
		if len(legal) == 0 {
			visit(&p, legal, move.NullMove)
			return p
		}
		var m move.Move
		if biased {
			tot := 0
			for _, x := range legal {
				tot += moveWeight(&p, x)
			}
			k := rng.Intn(tot)
			for _, x := range legal {
				k -= moveWeight(&p, x)
				if k < 0 {
					m = x
					break
				}
			}
		} else {
			m = legal[rng.Intn(len(legal))]
		}
		if !visit(&p, legal, m) {
			return p
		}
		p.MakeMove(m)
	}
	visit(&p, Legal(&p), move.NullMove)
	return p
}

// StartPositions returns the start position followed by the curated FENs that parse.
func StartPositions() []position.Position {
	r := []position.Position{*position.New()}
	for _, f := range CuratedFens {
		if p, err := position.NewFromFen(f); err == nil {
			r = append(r, *p)
		}
	}
	return r
}
