package poslib

import (
	"fmt"
	"strings"

	"github.com/shaardie/clemens/pkg/position"
	"github.com/shaardie/clemens/pkg/types"
)

// SimpleFen writes a FEN from raw components with the harness's own printer.
func SimpleFen(board *[64]types.Piece, side types.Color, castling int, ep int, hmc, full int) string {
	const chars = " PNBRQK  pnbrqk"
	var sb strings.Builder
	for r := 7; r >= 0; r-- {
		run := 0
		for f := 0; f < 8; f++ {
			pc := board[r*8+f]
			if pc == types.NO_PIECE {
				run++
				continue
			}
			if run > 0 {
				fmt.Fprintf(&sb, "%d", run)
				run = 0
			}
			sb.WriteByte(chars[pc])
		}
		if run > 0 {
			fmt.Fprintf(&sb, "%d", run)
		}
		if r > 0 {
			sb.WriteByte('/')
		}
	}
	if side == types.WHITE {
		sb.WriteString(" w ")
	} else {
		sb.WriteString(" b ")
	}
	cs := ""
	for i, c := range "KQkq" {
		if castling&(1<<uint(i)) != 0 {
			cs += string(c)
		}
	}
	if cs == "" {
		cs = "-"
	}
	sb.WriteString(cs + " ")
	if ep >= 64 || ep < 0 {
		sb.WriteString("-")
	} else {
		fmt.Fprintf(&sb, "%c%d", 'a'+ep%8, ep/8+1)
	}
	fmt.Fprintf(&sb, " %d %d", hmc, full)
	return sb.String()
}

// MirrorFen: board flipped top to bottom, colours, side to move, castling rights and en-passant
// square swapped accordingly.
func MirrorFen(p *position.Position) string {
	var b [64]types.Piece
	for s := 0; s < 64; s++ {
		pc := p.PiecesBoard[s]
		if pc != types.NO_PIECE {
			b[s^56] = pc ^ 8
		}
	}
	c := int(p.Castling)
	mc := (c&1)<<2 | (c&2)<<2 | (c&4)>>2 | (c&8)>>2
	ep := 64
	if p.EnPassant != types.SQUARE_NONE {
		ep = int(p.EnPassant) ^ 56
	}
	return SimpleFen(&b, types.SwitchColor(p.SideToMove), mc, ep, int(p.HalfMoveClock), int(p.Ply)/2+1)
}
