package poslib

import (
	"github.com/shaardie/clemens/pkg/position"
	"github.com/shaardie/clemens/pkg/types"
	"verifharness/common"
)

// MotifPosition builds a random LEGAL position around a structural coincidence that random play reaches only
// rarely, so that the rules that matter there are exercised densely:
//
//	kind 0  an en-passant capture has just become possible (double push made): the kings and up to three more
//	        pieces are placed with raised probability on the rank of the two pawns and on the lines through them
//	        (pinned capture, capture that removes a checker, discovered check through the two vacated squares);
//	kind 1  castling rights held, with enemy pieces aimed at the squares around king and rooks (attacked b-file
//	        square, attacked transit square, rook takes rook on its home square next move, king next to a corner);
//	kind 2  pawns about to promote next to pieces on the last rank (capturing promotions on the corners).
//
// The position is built on a board array, printed as FEN, parsed by the engine and accepted only if the naive
// invariant (independent of the engine's bitboards) and the material accounting hold.
func MotifPosition(r *common.Rng) (string, bool) {
	var b [64]types.Piece
	put := func(sq int, pc types.Piece) bool {
		if sq < 0 || sq > 63 || b[sq] != types.NO_PIECE {
			return false
		}
		b[sq] = pc
		return true
	}
	pc := func(col int, t int) types.Piece { return types.Piece(col*8 + t + 1) } // t: 0 pawn .. 5 king
	side := types.WHITE
	castling, ep := 0, 64
	var focus []int // squares around which the remaining pieces cluster
	switch kind := r.Intn(3); kind {
	case 0:
		mover := r.Intn(2) // colour of the side that may capture en passant
		f := r.Intn(8)
		df := 1
		if f == 7 || (f > 0 && r.Chance(1, 2)) {
			df = -1
		}
		rank := 4 // white captures: pawns on rank 5 (index 4), target on rank 6
		tr := 5
		if mover == 1 {
			rank, tr = 3, 2
		}
		put(rank*8+f, pc(mover, 0))
		put(rank*8+f+df, pc(1-mover, 0))
		ep = tr*8 + f + df
		if r.Chance(1, 3) && f-df >= 0 && f-df <= 7 && f+2*df >= 0 && f+2*df <= 7 {
			put(rank*8+f+2*df, pc(mover, 0)) // a second capturer on the other side
		}
		side = types.Color(mover)
		focus = []int{rank*8 + f, rank*8 + f + df, ep}
	case 1:
		for c := 0; c < 2; c++ {
			if c == 1 && r.Chance(1, 2) {
				continue
			}
			home := 0
			if c == 1 {
				home = 56
			}
			put(home+4, pc(c, 5))
			k, q := r.Chance(2, 3), r.Chance(2, 3)
			if !k && !q {
				k = true
			}
			if k {
				put(home+7, pc(c, 3))
				castling |= 1 << (2 * c)
			}
			if q {
				put(home, pc(c, 3))
				castling |= 2 << (2 * c)
			}
			focus = append(focus, home+1, home+2, home+3, home+5, home+6, home, home+7)
		}
		side = types.Color(r.Intn(2))
	case 2:
		c := r.Intn(2)
		rank, last := 6, 7
		if c == 1 {
			rank, last = 1, 0
		}
		for i := 0; i < 1+r.Intn(3); i++ {
			f := r.Intn(8)
			put(rank*8+f, pc(c, 0))
			for _, g := range []int{f - 1, f, f + 1} {
				if g >= 0 && g <= 7 && r.Chance(1, 2) {
					put(last*8+g, pc(1-c, 1+r.Intn(4)))
				}
			}
			focus = append(focus, rank*8+f, last*8+f)
		}
		side = types.Color(c)
	}
	// kings (unless placed) and a few more pieces, clustered on the lines through the focus squares
	near := func() int {
		if len(focus) == 0 || r.Chance(1, 4) {
			return r.Intn(64)
		}
		s := focus[r.Intn(len(focus))]
		f, rk := s%8, s/8
		switch r.Intn(4) {
		case 0: // same rank
			return rk*8 + r.Intn(8)
		case 1: // same file
			return r.Intn(8)*8 + f
		case 2: // a diagonal through it
			d := r.Intn(15) - 7
			if r.Chance(1, 2) {
				f2, r2 := f+d, rk+d
				if f2 >= 0 && f2 <= 7 && r2 >= 0 && r2 <= 7 {
					return r2*8 + f2
				}
			} else {
				f2, r2 := f+d, rk-d
				if f2 >= 0 && f2 <= 7 && r2 >= 0 && r2 <= 7 {
					return r2*8 + f2
				}
			}
		}
		// a neighbour
		f2, r2 := f+r.Intn(3)-1, rk+r.Intn(3)-1
		if f2 >= 0 && f2 <= 7 && r2 >= 0 && r2 <= 7 {
			return r2*8 + f2
		}
		return r.Intn(64)
	}
	for c := 0; c < 2; c++ {
		has := false
		for s := 0; s < 64; s++ {
			if b[s] == pc(c, 5) {
				has = true
			}
		}
		for tries := 0; !has && tries < 50; tries++ {
			has = put(near(), pc(c, 5))
		}
		if !has {
			return "", false
		}
	}
	for i := r.Intn(5); i > 0; i-- {
		t := 1 + r.Intn(4)
		if r.Chance(1, 5) {
			t = 0
		}
		s := near()
		if t == 0 && (s < 8 || s >= 56) {
			continue
		}
		put(s, pc(r.Intn(2), t))
	}
	fen := SimpleFen(&b, side, castling, ep, r.Intn(30), 1+r.Intn(60))
	p, err := position.NewFromFen(fen)
	if err != nil || NaiveInv(p) != "" || !MaterialOK(p) {
		return "", false
	}
	return p.ToFen(), true
}
