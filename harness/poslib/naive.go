package poslib

import (
	"fmt"

	"github.com/shaardie/clemens/pkg/position"
	"github.com/shaardie/clemens/pkg/types"
)

// ---- naive mailbox-only reference (no bitboards, no tables of the engine) ----

func onBoard(f, r int) bool { return f >= 0 && f < 8 && r >= 0 && r < 8 }

var knightD = [8][2]int{{1, 2}, {2, 1}, {2, -1}, {1, -2}, {-1, -2}, {-2, -1}, {-2, 1}, {-1, 2}}
var kingD = [8][2]int{{1, 0}, {1, 1}, {0, 1}, {-1, 1}, {-1, 0}, {-1, -1}, {0, -1}, {1, -1}}
var rookD = [4][2]int{{1, 0}, {-1, 0}, {0, 1}, {0, -1}}
var bishopD = [4][2]int{{1, 1}, {1, -1}, {-1, 1}, {-1, -1}}

func pieceAt(board *[64]types.Piece, f, r int) types.Piece { return board[r*8+f] }

// NaiveAttackers: the set of squares holding a piece (either colour) that attacks sq, computed
// from the mailbox by the geometric rules.
func NaiveAttackers(board *[64]types.Piece, sq int) uint64 {
	var res uint64
	f0, r0 := sq%8, sq/8
	for _, d := range knightD {
		f, r := f0+d[0], r0+d[1]
		if onBoard(f, r) && pieceAt(board, f, r) != types.NO_PIECE && pieceAt(board, f, r).Type() == types.KNIGHT {
			res |= 1 << uint(r*8+f)
		}
	}
	for _, d := range kingD {
		f, r := f0+d[0], r0+d[1]
		if onBoard(f, r) && pieceAt(board, f, r) != types.NO_PIECE && pieceAt(board, f, r).Type() == types.KING {
			res |= 1 << uint(r*8+f)
		}
	}
	slide := func(ds [4][2]int, t types.PieceType) {
		for _, d := range ds {
			f, r := f0+d[0], r0+d[1]
			for onBoard(f, r) {
				pc := pieceAt(board, f, r)
				if pc != types.NO_PIECE {
					if pc.Type() == t || pc.Type() == types.QUEEN {
						res |= 1 << uint(r*8+f)
					}
					break
				}
				f, r = f+d[0], r+d[1]
			}
		}
	}
	slide(rookD, types.ROOK)
	slide(bishopD, types.BISHOP)
	// a white pawn on (f0±1, r0-1) attacks sq; a black pawn on (f0±1, r0+1) attacks sq
	for _, df := range []int{-1, 1} {
		if onBoard(f0+df, r0-1) && pieceAt(board, f0+df, r0-1) == types.WHITE_PAWN {
			res |= 1 << uint((r0-1)*8+f0+df)
		}
		if onBoard(f0+df, r0+1) && pieceAt(board, f0+df, r0+1) == types.BLACK_PAWN {
			res |= 1 << uint((r0+1)*8+f0+df)
		}
	}
	return res
}

func validPiece(pc types.Piece) bool { return (pc >= 1 && pc <= 6) || (pc >= 9 && pc <= 14) }

// NaiveAttackedBy: is sq attacked by a piece of colour c?
func NaiveAttackedBy(board *[64]types.Piece, sq int, c types.Color) bool {
	a := NaiveAttackers(board, sq)
	for s := 0; s < 64; s++ {
		if a&(1<<uint(s)) != 0 && board[s].Color() == c {
			return true
		}
	}
	return false
}

func KingSquare(board *[64]types.Piece, c types.Color) int {
	for s := 0; s < 64; s++ {
		if board[s] != types.NO_PIECE && board[s].Type() == types.KING && board[s].Color() == c {
			return s
		}
	}
	return -1
}

// NaiveInv checks the C10 invariant on the engine's struct; "" when it holds.
func NaiveInv(p *position.Position) string {
	var bb [2][6]uint64
	var col [2]uint64
	kings := [2]int{}
	for s := 0; s < 64; s++ {
		pc := p.PiecesBoard[s]
		if pc == types.NO_PIECE {
			continue
		}
		if !validPiece(pc) {
			return fmt.Sprintf("square %d holds invalid piece code %d", s, pc)
		}
		bb[pc.Color()][pc.Type()] |= 1 << uint(s)
		col[pc.Color()] |= 1 << uint(s)
		if pc.Type() == types.KING {
			kings[pc.Color()]++
		}
		if pc.Type() == types.PAWN && (s < 8 || s >= 56) {
			return fmt.Sprintf("pawn on back rank square %d", s)
		}
	}
	for c := 0; c < 2; c++ {
		for t := 0; t < 6; t++ {
			if uint64(p.PiecesBitboard[c][t]) != bb[c][t] {
				return fmt.Sprintf("bitboard[%d][%d]=%x disagrees with the square array (%x)", c, t, uint64(p.PiecesBitboard[c][t]), bb[c][t])
			}
		}
		if uint64(p.AllPiecesByColor[c]) != col[c] {
			return fmt.Sprintf("AllPiecesByColor[%d]=%x, square array says %x", c, uint64(p.AllPiecesByColor[c]), col[c])
		}
		if kings[c] != 1 {
			return fmt.Sprintf("colour %d has %d kings", c, kings[c])
		}
	}
	if uint64(p.AllPieces) != col[0]|col[1] {
		return fmt.Sprintf("AllPieces=%x, square array says %x", uint64(p.AllPieces), col[0]|col[1])
	}
	type cr struct {
		right      position.Castling
		king, rook int
		kp, rp     types.Piece
	}
	for _, x := range []cr{
		{position.WHITE_CASTLING_KING, 4, 7, types.WHITE_KING, types.WHITE_ROOK},
		{position.WHITE_CASTLING_QUEEN, 4, 0, types.WHITE_KING, types.WHITE_ROOK},
		{position.BLACK_CASTLING_KING, 60, 63, types.BLACK_KING, types.BLACK_ROOK},
		{position.BLACK_CASTLING_QUEEN, 60, 56, types.BLACK_KING, types.BLACK_ROOK},
	} {
		if p.Castling&x.right != 0 && (p.PiecesBoard[x.king] != x.kp || p.PiecesBoard[x.rook] != x.rp) {
			return fmt.Sprintf("castling right %d held without king/rook on their home squares", x.right)
		}
	}
	if p.Castling&^15 != 0 {
		return fmt.Sprintf("castling field has foreign bits: %d", p.Castling)
	}
	if p.EnPassant != types.SQUARE_NONE {
		e := int(p.EnPassant)
		if p.SideToMove == types.WHITE {
			// black just advanced two squares: target on rank 6, black pawn below it, origin above empty
			if e/8 != 5 || p.PiecesBoard[e] != types.NO_PIECE || p.PiecesBoard[e-8] != types.BLACK_PAWN || p.PiecesBoard[e+8] != types.NO_PIECE {
				return fmt.Sprintf("en-passant target %d does not lie behind a black pawn that just advanced two squares", e)
			}
		} else {
			if e/8 != 2 || p.PiecesBoard[e] != types.NO_PIECE || p.PiecesBoard[e+8] != types.WHITE_PAWN || p.PiecesBoard[e-8] != types.NO_PIECE {
				return fmt.Sprintf("en-passant target %d does not lie behind a white pawn that just advanced two squares", e)
			}
		}
	}
	if p.SideToMove != types.WHITE && p.SideToMove != types.BLACK {
		return "side to move is neither colour"
	}
	them := types.SwitchColor(p.SideToMove)
	if NaiveAttackedBy(&p.PiecesBoard, KingSquare(&p.PiecesBoard, them), p.SideToMove) {
		return "the side that just moved is in check"
	}
	return ""
}

// ScratchHash computes the hash from placement, side, HELD castling rights and en-passant file with
// the engine's key tables, independently of the engine's own hashing code.
func ScratchHash(p *position.Position) uint64 {
	pieces, side, castling, ep := position.VerifZobristKeys()
	var h uint64
	for s := 0; s < 64; s++ {
		pc := p.PiecesBoard[s]
		if pc != types.NO_PIECE && validPiece(pc) {
			h ^= pieces[s][pc.Color()][pc.Type()]
		}
	}
	if p.SideToMove == types.BLACK {
		h ^= side
	}
	for i := 0; i < 4; i++ {
		if int(p.Castling)&(1<<uint(i)) != 0 {
			h ^= castling[i]
		}
	}
	if p.EnPassant != types.SQUARE_NONE {
		h ^= ep[p.EnPassant&7]
	}
	return h
}

// MaterialOK: material that a legal game can reach: per side at most 8 pawns, 16 men, and no more
// promoted pieces than missing pawns.
func MaterialOK(p *position.Position) bool {
	for c := 0; c < 2; c++ {
		cnt := [6]int{}
		total := 0
		for s := 0; s < 64; s++ {
			pc := p.PiecesBoard[s]
			if pc != types.NO_PIECE && validPiece(pc) && int(pc.Color()) == c {
				cnt[pc.Type()]++
				total++
			}
		}
		extra := 0
		for t, base := range map[int]int{1: 2, 2: 2, 3: 2, 4: 1} {
			if cnt[t] > base {
				extra += cnt[t] - base
			}
		}
		if cnt[0] > 8 || total > 16 || extra > 8-cnt[0] || cnt[5] != 1 {
			return false
		}
	}
	return true
}
