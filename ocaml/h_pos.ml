(* Handlers over positions: FEN (parser/printer), GAME (operation histories), MOVES (generators,
   attackers, successors). *)
open Clemens_model
open Conv
open Posio

(* FEN: case = hex of the raw string *)
let fen_gen parse (line : string) : string =
  let s = unhex (String.trim line) in
  match parse (bytes_of_string s) with
  | Err -> "err"
  | Panic -> "panic"
  | Ok p -> "ok " ^ posline p ^ " | " ^ cls (m_to_fen p) string_of_bytes

let () = Reg.register "FEN" (fen_gen m_new_from_fen)
let () = Reg.register "FEN-unrepaired" (fen_gen m_new_from_fen_unrepaired)

(* GAME: case = <start> op op ...; start = "startpos" or hex of a FEN; op = uci move | null | unnull *)
let game (line : string) : string =
  match split_ws line with
  | [] -> failwith "game: empty"
  | start :: ops ->
    let p0 = if start = "startpos" then m_new_position else m_new_from_fen (bytes_of_string (unhex start)) in
    let out = Buffer.create 4096 in
    (match p0 with
     | Err -> Buffer.add_string out "err"
     | Panic -> Buffer.add_string out "panic"
     | Ok p ->
       Buffer.add_string out (posline p);
       let cur = ref (Some p) in
       let eps = ref [] in
       List.iter (fun op ->
         match !cur with
         | None -> ()
         | Some p ->
           let r =
             if op = "null" then
               (match m_make_null_move p with
                | Ok (q, e) -> eps := e :: !eps; Ok q | Err -> Err | Panic -> Panic)
             else if op = "unnull" then
               (match !eps with
                | e :: rest -> eps := rest; m_unmake_null_move p e
                | [] -> failwith "unnull without null")
             else m_make_move_from_string p (bytes_of_string op) in
           (match r with
            | Ok q -> Buffer.add_string out " | "; Buffer.add_string out (posline q); cur := Some q
            | Err -> Buffer.add_string out " | err"; cur := None
            | Panic -> Buffer.add_string out " | panic"; cur := None)) ops);
    Buffer.contents out

let () = Reg.register "GAME" game

(* MOVES: case = a FEN (text). *)
let moves (line : string) : string =
  match m_new_from_fen (bytes_of_string (String.trim line)) with
  | Err -> "err"
  | Panic -> "panic"
  | Ok p ->
    let b = Buffer.create 2048 in
    let add s = Buffer.add_string b s in
    let pseudo = gen_moves p in
    add "G:"; add (cls pseudo moves_str);
    add " C:"; add (cls (gen_captures p) moves_str);
    add " L:"; add (cls (m_legal_moves p) moves_str);
    add " chk:"; add (cls (is_in_check p N0) (fun x -> if x then "1" else "0"));
    add (cls (is_in_check p (n_of_int 1)) (fun x -> if x then "1" else "0"));
    add " cap:";
    (match pseudo with
     | Ok l -> List.iter (fun m -> add (cls (is_capture p m) (fun x -> if x then "1" else "0"))) l
     | _ -> add "-");
    add " att:";
    for sq = 0 to 63 do
      add (cls (square_attacked_by p (n_of_int sq)) hex_of_n); add ","
    done;
    add " succ:";
    (match m_legal_moves p with
     | Ok l ->
       List.iter (fun m ->
         match m_make_move p m with
         | Ok q -> add (cls (m_to_fen q) string_of_bytes); add "#"; add (hex_of_n q.hash); add ";"
         | Err -> add "err;" | Panic -> add "panic;") l
     | _ -> add "-");
    add " str:";
    (match m_legal_moves p with
     | Ok l -> List.iter (fun m -> add (cls (move_to_string m) string_of_bytes); add ",") l
     | _ -> add "-");
    Buffer.contents b

let () = Reg.register "MOVES" moves

(* ATTACKS: "<kind> <square> <occupancy hex>" *)
let attacks_h (line : string) : string =
  match split_ws line with
  | [k; sq; occ] ->
    let s = n_of_int (int_of_string sq) and o = n_of_hex occ in
    let w = N0 and b = n_of_int 1 in
    hex_of_n (match k with
      | "r" -> rook_attacks s o | "b" -> bishop_attacks s o | "q" -> queen_attacks s o
      | "n" -> knight_attacks s | "k" -> king_attacks s
      | "pw" -> pawn_attacks w s | "pb" -> pawn_attacks b s
      | "mr" -> rook_mask s | "mb" -> bishop_mask s
      | "uw" -> pushes_by_square w s o | "ub" -> pushes_by_square b s o
      | _ -> failwith "ATTACKS: kind")
  | _ -> failwith "ATTACKS: bad case"

let () = Reg.register "ATTACKS" attacks_h
let () = Reg.register "ATTACKS-ALL" attacks_h
