(* Handlers that run the FIDE specification (Rules/Fide.v), not the engine model:
   PERFT  case "<depth> <fen>"      -> node count
   SPEC   case "<fen>"              -> legal moves in UCI text (sorted) with successor FENs, check/mate flags *)
open Clemens_model
open Conv

let text_of_string = Posio.text_of_string
let string_of_text = Posio.string_of_text

let perft_h (line : string) : string =
  let line = String.trim line in
  let i = String.index line ' ' in
  let d = int_of_string (String.sub line 0 i) in
  let fen = String.sub line (i + 1) (String.length line - i - 1) in
  match read_fen (text_of_string fen) with
  | None -> "badfen"
  | Some s -> string_of_int (int_of_z (perft (nat_of_int d) s))

let () = Reg.register "PERFT" perft_h

let spec_h (line : string) : string =
  match read_fen (text_of_string (String.trim line)) with
  | None -> "badfen"
  | Some s ->
    let ms = legal_moves_fast s in
    let items = List.map (fun m -> string_of_text (show_move m) ^ "=" ^ string_of_text (show_fen (apply s m))) ms in
    let items = List.sort compare items in
    Printf.sprintf "n=%d check=%b moves: %s" (List.length ms) (in_check s s.b_turn) (String.concat "; " items)

let () = Reg.register "SPEC" spec_h
