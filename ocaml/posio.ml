(* Text forms of model values shared by the position handlers. *)
open Clemens_model
open Conv

let bytes_of_string (s : string) : n list =
  List.init (String.length s) (fun i -> n_of_int (Char.code s.[i]))
let string_of_bytes (b : n list) : string =
  let l = List.map int_of_n b in
  String.init (List.length l) (fun i -> Char.chr ((List.nth l i) land 255))
(* faster for long lists *)
let string_of_bytes (b : n list) : string =
  let buf = Buffer.create 64 in
  List.iter (fun x -> Buffer.add_char buf (Char.chr ((int_of_n x) land 255))) b;
  Buffer.contents buf

let unhex (s : string) : string =
  String.init (String.length s / 2) (fun i -> Char.chr (int_of_string ("0x" ^ String.sub s (2 * i) 2)))

(* bbs(12) hash all white black board(128 hex chars) side castling ep hmc ply *)
let posline (p : position) : string =
  let b = Buffer.create 600 in
  List.iter (fun x -> Buffer.add_string b (hex_of_n x); Buffer.add_char b ' ') p.bbs;
  Buffer.add_string b (hex_of_n p.hash); Buffer.add_char b ' ';
  Buffer.add_string b (hex_of_n p.all_pieces); Buffer.add_char b ' ';
  List.iter (fun x -> Buffer.add_string b (hex_of_n x); Buffer.add_char b ' ') p.by_color;
  List.iter (fun x -> Buffer.add_string b (Printf.sprintf "%02x" (int_of_n x))) p.board;
  Buffer.add_string b (Printf.sprintf " %d %d %d %d %d" (int_of_n p.side) (int_of_n p.castling)
                         (int_of_n p.ep) (int_of_n p.hmc) (int_of_n p.ply));
  Buffer.contents b

let cls (r : 'a res) (f : 'a -> string) : string =
  match r with Ok a -> f a | Err -> "err" | Panic -> "panic"

let moves_str (l : n list) : string = String.concat "," (List.map (fun m -> string_of_int (int_of_n m)) l)

(* text of the specification side (lists of character codes as Z) *)
let text_of_string (s : string) : z list = List.init (String.length s) (fun i -> z_of_int (Char.code s.[i]))
let string_of_text (t : z list) : string =
  let b = Buffer.create 64 in
  List.iter (fun c -> Buffer.add_char b (Char.chr ((int_of_z c) land 255))) t; Buffer.contents b
