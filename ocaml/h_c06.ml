open Clemens_model
open Conv

(* C06: the command loop as a transition system (Uci/Conc.v, repaired variant).
   case: "<dialogue> | <schedule>"; dialogue letters P F I S R; schedule: 'r' reader, digit k search
   goroutine k, 'A'+i asynchronous StartSearch i.
   observable: "out=<events> gst=<n> lines=<n> live=<n> lock=<0|1>" *)

let cmd_code (c : char) : int =
  match c with 'P' -> 0 | 'F' | 'N' | 'M' | 'T' -> 1 | 'I' -> 2 | 'S' -> 3 | 'R' -> 4 | _ -> failwith "c06: dialogue letter"

let label_code (c : char) : int =
  if c = 'r' then 0
  else if c >= '0' && c <= '9' then 1 + 2 * (Char.code c - 48)
  else if c >= 'A' && c <= 'Z' then 2 + 2 * (Char.code c - 65)
  else failwith "c06: schedule letter"

let label_char (n : int) : char =
  if n = 0 then 'r'
  else if n land 1 = 1 then Char.chr (48 + (n - 1) / 2)
  else Char.chr (65 + (n - 2) / 2)

let explode (s : string) : char list = List.init (String.length s) (String.get s)

let dialogue_of (s : string) : nat list = List.map (fun c -> nat_of_int (cmd_code c)) (explode s)

let event_name (n : int) : string =
  match n with 0 -> "ready" | 1 -> "best" | 2 -> "refusepos" | _ -> "refusego"

let split_case (line : string) : string * string =
  match String.index_opt line '|' with
  | None -> failwith "c06: bad case"
  | Some i -> (String.trim (String.sub line 0 i), String.trim (String.sub line (i + 1) (String.length line - i - 1)))

let c06 (line : string) : string =
  let (d, sch) = split_case line in
  if String.length sch >= 7 && String.sub sch 0 7 = "random:" then "n/a" else
  let ((((evs, gst), lines), live), lock) =
    c06_run (dialogue_of d) (List.map (fun c -> nat_of_int (label_code c)) (explode sch)) in
  Printf.sprintf "out=%s gst=%d lines=%d live=%d lock=%d"
    (String.concat "," (List.map (fun e -> event_name (int_of_nat e)) evs))
    (int_of_nat gst) (int_of_nat lines) (int_of_nat live) (if lock then 1 else 0)

let () = Reg.register "C06" c06

(* ---- generation of cases from the model: "seed n shard" -> n case lines *)
let sched_string (l : nat list) : string =
  let b = Buffer.create 64 in
  List.iter (fun x -> Buffer.add_char b (label_char (int_of_nat x))) l;
  Buffer.contents b

(* F, N, M, T are all finite searches for the model (go depth 1 / with nodes / with mate / movetime) *)
let short_dialogues = [ "PF"; "PIS"; "PFS"; "PRIS"; "PIRS"; "PPF"; "RPFR"; "PSF"; "PISS"; "PFPF"; "PISPF"; "PFRS"; "PMR"; "PNS"; "PTR" ]

(* splitmix64 on Int64 *)
let mix (s : int64 ref) : int64 =
  s := Int64.add !s 0x9E3779B97F4A7C15L;
  let z = !s in
  let z = Int64.mul (Int64.logxor z (Int64.shift_right_logical z 30)) 0xBF58476D1CE4E5B9L in
  let z = Int64.mul (Int64.logxor z (Int64.shift_right_logical z 27)) 0x94D049BB133111EBL in
  Int64.logxor z (Int64.shift_right_logical z 31)
let below (s : int64 ref) (n : int) : int =
  if n <= 0 then 0 else Int64.to_int (Int64.unsigned_rem (mix s) (Int64.of_int n))

let random_dialogue (s : int64 ref) : string =
  let b = Buffer.create 16 in
  let noise mx = for _ = 1 to below s (mx + 1) do Buffer.add_char b (if below s 2 = 0 then 'R' else 'S') done in
  let rounds = 1 + below s 3 in
  for _ = 1 to rounds do
    noise 1; Buffer.add_char b 'P'; noise 1;
    if below s 2 = 0 then (Buffer.add_char b "FFNMT".[below s 5]; noise 2)
    else (Buffer.add_char b 'I'; for _ = 1 to below s 2 do Buffer.add_char b 'R' done; Buffer.add_char b 'S'; noise 1)
  done;
  Buffer.contents b

let c06gen (line : string) : string =
  match List.map int_of_string (split_ws line) with
  | [seed; n; shard] ->
    let st = ref (Int64.of_int (seed * 7919 + shard * 104729 + 12345)) in
    let out = ref [] in
    let count = ref 0 in
    let add d sch = if !count < n then (out := (d ^ " | " ^ sched_string sch) :: !out; incr count) in
    if shard = 0 then
      List.iter (fun d ->
        (* every maximal execution of the short dialogues, as long as there is room *)
        let ex = c06_executions (nat_of_int 80) (dialogue_of d) in
        if List.length ex <= 400 then List.iter (fun sch -> add d sch) ex
        else List.iteri (fun i sch -> if i mod (List.length ex / 300 + 1) = 0 then add d sch) ex)
        short_dialogues;
    while !count < n do
      let d = random_dialogue st in
      let pick _ m = nat_of_int (below st (int_of_nat m)) in
      add d (c06_random_execution (nat_of_int 300) (dialogue_of d) pick)
    done;
    String.concat "\n" (List.rev !out)
  | _ -> failwith "c06gen: bad request"

let () = Reg.register "C06GEN" c06gen
