(* Handlers over the search model: ORDER (scoreMoves + SortIndex sweep), SEARCH (whole searches). *)
open Clemens_model
open Conv
open Posio

let split_on_str (sep : string) (s : string) : string list = Str.split_delim (Str.regexp_string sep) s

let order_h (line : string) : string =
  match split_on_str " | " line with
  | [fen; params; hist; ctr] ->
    (match m_new_from_fen (bytes_of_string (String.trim fen)) with
     | Err -> "badfen" | Panic -> "panic"
     | Ok p ->
       let v = Array.of_list (List.map int_of_string (split_ws params)) in
       let parse s = List.filter_map (fun e ->
           match String.split_on_char ':' e with
           | [a; b; c] -> Some ((int_of_string a, int_of_string b), int_of_string c)
           | _ -> None) (String.split_on_char ',' (String.trim s)) in
       (* later entries for the same key win, as map assignment does *)
       let hist_l = List.rev (parse hist) and ctr_l = List.rev (parse ctr) in
       let look l a b = match List.assoc_opt (int_of_n a, int_of_n b) l with Some x -> n_of_int x | None -> N0 in
       let h = { h_pv = n_of_int v.(2); h_tt = n_of_int v.(3); h_killer0 = n_of_int v.(4); h_killer1 = n_of_int v.(5);
                 h_history = look hist_l; h_counter = look ctr_l } in
       let gen = if v.(0) = 1 then gen_captures p else gen_moves p in
       (match gen with
        | Ok ms ->
          (match m_score_moves p h ms with
           | Ok scored -> "S:" ^ moves_str scored ^ " V:" ^ moves_str (visit_order scored)
           | _ -> "panic")
        | _ -> "panic"))
  | _ -> failwith "ORDER: bad case"

let () = Reg.register "ORDER" order_h

(* SEARCH: searches "<startpos|FEN>|<moves>|<depth>|<cancel>" separated by " ;; ", tables shared *)
let pv_str (l : n list) : string =
  String.concat " " (List.map (fun m -> cls (move_to_string m) string_of_bytes) l)

(* what the independent FIDE specification (Rules/Fide.v) says about the root: its legal moves and the mating ones, in UCI
   text; appended behind " ## " - not part of the observable that is compared with the implementation, read by the runner's
   judge (the answer must be one of the legal moves, and a mating one when there is one) *)
let spec_info (root : position) : string =
  match m_to_fen root with
  | Ok fen ->
    (match read_fen (Posio.text_of_string (string_of_bytes fen)) with
     | Some s0 ->
       let ms = legal_moves_fast s0 in
       let txt m = Posio.string_of_text (show_move m) in
       let mates = List.filter (fun m -> let s1 = apply s0 m in legal_moves_fast s1 = [] && in_check s1 s1.b_turn) ms in
       Printf.sprintf " ## legal=%s mates=%s" (String.concat "," (List.map txt ms)) (String.concat "," (List.map txt mates))
     | None -> " ## nospec")
  | _ -> " ## nospec"

let search_gen repaired (line : string) : string =
  let tt = ref m_tt_init and cache = ref [] in
  let outs = List.map (fun sp ->
    match String.split_on_char '|' sp with
    | [start; moves; depth; cancel] ->
      let p0 = if start = "startpos" then m_new_position else m_new_from_fen (bytes_of_string start) in
      (match p0 with
       | Ok p ->
         (* replay the game moves, pushing each position's hash (Search.MakeMoveFromString) *)
         let rec play p hist = function
           | [] -> Some (p, hist)
           | m :: r -> (match m_make_move_from_string p (bytes_of_string m) with
                        | Ok q -> play q (q.hash :: hist) r
                        | _ -> None) in
         (match play p [] (split_ws moves) with
          | None -> "badmove"
          | Some (root, hist) ->
            let c = int_of_string cancel in
            let st = m_init_sst !tt !cache hist (if c < 0 then None else Some (n_of_int c)) in
            let d = int_of_string depth in
            let (r, st') = m_search (nat_of_int (2 * (if d = 0 then 100 else d) + 4)) (nat_of_int 400) repaired st root (n_of_int d) in
            tt := st'.s_tt; cache := st'.s_cache;
            (match r with
             | ROk best ->
               let evs = List.rev_map (fun e ->
                 match e with
                 | EInfo (dp, sc, nodes, hf, pv) ->
                   String.trim (Printf.sprintf "I %d %d %d %d %s" (int_of_n dp) (int_of_z sc) (int_of_n nodes) (int_of_n hf) (pv_str pv))
                 | EWindow (a, b, s) -> Printf.sprintf "W %d %d %d" (int_of_z a) (int_of_z b) (int_of_z s)) st'.s_out in
               let bs = if int_of_n best = 0 then "0000" else cls (move_to_string best) string_of_bytes in
               Printf.sprintf "best=%s nodes=%d polls=%d ev: %s" bs (int_of_n st'.s_nodes) (int_of_n st'.s_polls)
                 (String.concat " / " evs) ^ spec_info root
             | RCancel -> "cancel"
             | RPanic -> "panic"
             | ROutOfFuel -> "hang"))
       | _ -> "badfen")
    | _ -> failwith "SEARCH: bad spec") (split_on_str " ;; " line) in
  String.concat " ;; " outs

let () = Reg.register "SEARCH" (search_gen true)
let () = Reg.register "SEARCH-unrepaired" (search_gen false)
let () = Reg.register "MATE1" (search_gen true)
