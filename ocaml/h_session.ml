(* SESSION: whole UCI sessions on the sequential engine model (Uci/Engine.v, instantiated in
   Uci/EngineInst.v): "<c>|<line>" items separated by " ;; "; output lines rendered by the model's
   own [go_render], joined by " / ". *)
open Clemens_model
open Conv
open Posio

let session_h (line : string) : string =
  let items = Str.split_delim (Str.regexp_string " ;; ") line in
  let ls = List.map (fun it ->
      let k = String.index it '|' in
      let c = int_of_string (String.sub it 0 k) in
      let text = String.sub it (k + 1) (String.length it - k - 1) in
      (bytes_of_string text, (if c < 0 then None else Some (n_of_int c)))) items in
  let (fin, out) = go_run (nat_of_int 510) (nat_of_int 1282) go_engine_init ls in
  let lines = List.concat_map (fun o -> let (l, _) = go_render o in List.map string_of_bytes l) out in
  (* one Printf may carry several lines (the answer to uci) *)
  let e = match fin with SEof _ -> "eof" | SQuit -> "quit" | SPanic -> "panic" | SStuck -> "stuck" in
  String.concat " / " lines ^ " end=" ^ e

let () = Reg.register "SESSION" session_h
