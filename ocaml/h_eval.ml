(* Handlers over the evaluation model: EVAL (score and accumulators of a position and its mirror). *)
open Clemens_model
open Conv
open Posio

let split_on_str (sep : string) (s : string) : string list =
  Str.split_delim (Str.regexp_string sep) s

let eval_line (fen : string) : string =
  match m_new_from_fen (bytes_of_string (String.trim fen)) with
  | Err -> "err" | Panic -> "panic"
  | Ok p ->
    (match m_eval_raw p with
     | Err -> "err" | Panic -> "panic"
     | Ok s ->
       let (m, e, b) =
         match m_is_draw p with
         | Ok true -> (0, 0, 0)
         | _ -> (match m_eval_parts p with Ok ((m, e), b) -> (int_of_z m, int_of_z e, int_of_z b) | _ -> (0, 0, 0)) in
       Printf.sprintf "%d %d %d %d" (int_of_z s) m e b)

let eval_h (line : string) : string =
  match split_on_str " ;; " line with
  | [a; b] ->
    let ra = eval_line a and rb = eval_line b in
    (* the model's [mirror] (the one the C15 theorems are about) applied to the first position must print
       as the mirrored FEN the harness built independently *)
    let mir =
      match m_new_from_fen (bytes_of_string (String.trim a)) with
      | Ok p -> (match m_to_fen (m_mirror p) with
                 | Ok t -> if string_of_bytes t = String.trim b then "mir=ok" else "mir=" ^ string_of_bytes t
                 | _ -> "mir=panic") ^ (if m_material_ok p then " mat=1" else " mat=0")
      | _ -> "mir=ok mat=0" in
    if ra = "panic" || rb = "panic" then "panic" else ra ^ " | " ^ rb ^ " | " ^ mir
  | _ -> failwith "EVAL: bad case"

let () = Reg.register "EVAL" eval_h

(* CACHE: FENs separated by " ;; " evaluated in order through the cache, from an empty cache *)
let cache_gen evalf (line : string) : string =
  let cache = ref [] in
  let outs = List.map (fun fen ->
    match m_new_from_fen (bytes_of_string (String.trim fen)) with
    | Err -> "badfen" | Panic -> "panic"
    | Ok p ->
      (match evalf !cache p with
       | Ok (s, c) -> cache := c; string_of_int (int_of_z s)
       | Err -> "err" | Panic -> "panic")) (split_on_str " ;; " line) in
  String.concat " " outs

let () = Reg.register "CACHE" (cache_gen m_eval_cached)
let () = Reg.register "CACHE-unrepaired" (cache_gen m_eval_cached_unrepaired)

(* SEE: a FEN; "move=value" for each legal non-en-passant capture in generation order *)
let see_h (line : string) : string =
  match m_new_from_fen (bytes_of_string (String.trim line)) with
  | Err -> "badfen" | Panic -> "panic"
  | Ok p ->
    (match m_legal_moves p with
     | Ok l ->
       let items = List.filter_map (fun m ->
         let kind = (int_of_n m lsr 12) land 3 in
         let dst = (int_of_n m lsr 6) land 63 in
         let occupied = (match List.nth_opt p.board dst with Some x -> int_of_n x <> 0 | None -> false) in
         if kind = 2 || not occupied then None
         else
           let v = match m_see p m with Ok v -> string_of_int (int_of_z v) | Err -> "err" | Panic -> "panic" in
           Some (cls (move_to_string m) string_of_bytes ^ "=" ^ v)) l in
       if List.exists (fun s -> String.length s >= 5 && String.sub s (String.length s - 5) 5 = "panic") items then "panic"
       else String.concat " " items
     | Err -> "err" | Panic -> "panic")

let () = Reg.register "SEE" see_h

(* SEEREF (C18): as SEE, but "move=<value of the reference see_ref>" (Eval/SeeRef.v) for each legal
   non-en-passant capture in generation order. The reference is total: it never panics. *)
let seeref_h (line : string) : string =
  match m_new_from_fen (bytes_of_string (String.trim line)) with
  | Err -> "badfen" | Panic -> "panic"
  | Ok p ->
    (match m_legal_moves p with
     | Ok l ->
       let items = List.filter_map (fun m ->
         let kind = (int_of_n m lsr 12) land 3 in
         let dst = (int_of_n m lsr 6) land 63 in
         let occupied = (match List.nth_opt p.board dst with Some x -> int_of_n x <> 0 | None -> false) in
         if kind = 2 || not occupied then None
         else Some (cls (move_to_string m) string_of_bytes ^ "=" ^ string_of_int (int_of_z (m_see_ref p m)))) l in
       String.concat " " items
     | Err -> "err" | Panic -> "panic")

let () = Reg.register "SEEREF" seeref_h
