(* Handlers over the evaluation model: EVAL (score and accumulators of a position and its mirror). *)
open Clemens_model
open Conv
open Posio

let split_on_str (sep : string) (s : string) : string list =
  Str.split_delim (Str.regexp_string sep) s

let eval_line (fen : string) : string =
  match m_new_from_fen (bytes_of_string (String.trim fen)) with
  | Err -> "err" | Panic -> "panic"
  | Ok p ->
    (match m_eval_raw p with
     | Err -> "err" | Panic -> "panic"
     | Ok s ->
       let (m, e, b) =
         match m_is_draw p with
         | Ok true -> (0, 0, 0)
         | _ -> (match m_eval_parts p with Ok ((m, e), b) -> (int_of_z m, int_of_z e, int_of_z b) | _ -> (0, 0, 0)) in
       Printf.sprintf "%d %d %d %d" (int_of_z s) m e b)

let eval_h (line : string) : string =
  match split_on_str " ;; " line with
  | [a; b] ->
    let ra = eval_line a and rb = eval_line b in
    if ra = "panic" || rb = "panic" then "panic" else ra ^ " | " ^ rb
  | _ -> failwith "EVAL: bad case"

let () = Reg.register "EVAL" eval_h
