(* Model driver: driver <key> <cases file> prints the model's observable line for each case line.
   Handlers live in h_*.ml and register themselves in Reg. *)
let () =
  let key = Sys.argv.(1) in
  let h = try Hashtbl.find Reg.handlers key with Not_found -> failwith ("unknown key " ^ key) in
  let ic = open_in Sys.argv.(2) in
  let out = Buffer.create 65536 in
  (try
     while true do
       let line = input_line ic in
       let r = try h line with
         | Stack_overflow -> "MODEL-EXCEPTION stack overflow"
         | e -> "MODEL-EXCEPTION " ^ Printexc.to_string e in
       Buffer.add_string out r; Buffer.add_char out '\n';
       if Buffer.length out > 1 lsl 20 then (print_string (Buffer.contents out); Buffer.clear out)
     done
   with End_of_file -> ());
  print_string (Buffer.contents out)
