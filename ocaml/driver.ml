(* Model driver: reads one case per line from the file given as argv.(2), for the property
   group argv.(1), and prints the model's observable line for each case. *)
open Clemens_model
open Conv

let c08 (toks : string list) : string =
  match List.map int_of_string toks with
  | [black; plys; wtime; btime; winc; binc; mtg; movetime] ->
    let sp = { gp_wtime = z_of_int wtime; gp_btime = z_of_int btime; gp_winc = z_of_int winc;
               gp_binc = z_of_int binc; gp_movestogo = z_of_int mtg; gp_movetime = z_of_int movetime } in
    string_of_int (int_of_z (m_calc_time (black = 1) (z_of_int plys) sp))
  | _ -> failwith "c08: bad case"

let handlers : (string * (string list -> string)) list = [
  ("C08", c08);
]

let () =
  let prop = Sys.argv.(1) in
  let h = try List.assoc prop handlers with Not_found -> failwith ("unknown property " ^ prop) in
  let ic = open_in Sys.argv.(2) in
  let out = Buffer.create 65536 in
  (try
     while true do
       let line = input_line ic in
       let r = try h (split_ws line) with e -> "MODEL-EXCEPTION " ^ Printexc.to_string e in
       Buffer.add_string out r; Buffer.add_char out '\n'
     done
   with End_of_file -> ());
  print_string (Buffer.contents out)
