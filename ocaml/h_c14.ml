open Clemens_model
open Conv

(* case: <tag> <op> ; <op> ; ...   (see harness/cmd/hsearch/c14.go)
   observable: res=<score>:<use>:<move>,... he=<hashEntries> full=<HashFull>
               buckets=<idxhex>=<e>|<e>|<e>|<e>,...   e = <hashhex>/<move>/<score>/<depth>/<ageAndNodeType> *)
let parse_op (s : string) : tt_op option =
  match split_ws s with
  | ["S"; h; m; d; sc; nt; age] ->
    Some (OSave { sv_hash = n_of_hex h; sv_move = n_of_int (int_of_string m);
                  sv_depth = n_of_int (int_of_string d); sv_score = z_of_int (int_of_string sc);
                  sv_nt = n_of_int (int_of_string nt); sv_age = n_of_int (int_of_string age) })
  | ["G"; h; a; b; d; p] ->
    Some (OGet (n_of_hex h, z_of_int (int_of_string a), z_of_int (int_of_string b),
                n_of_int (int_of_string d), n_of_int (int_of_string p)))
  | ["R"] -> Some OReset
  | [] -> None
  | _ -> failwith ("c14: bad op: " ^ s)

let op_hash (o : tt_op) : n option =
  match o with
  | OSave sv -> Some sv.sv_hash
  | OGet (h, _, _, _, _) -> Some h
  | OReset -> None

let c14 (line : string) : string =
  let body = String.sub line 2 (String.length line - 2) in
  let ops = List.filter_map parse_op (String.split_on_char ';' body) in
  let (st, outs) = m_tt_exec ops in
  let res = String.concat "," (List.map (fun ((sc, use), mv) ->
      Printf.sprintf "%d:%d:%d" (int_of_z sc) (if use then 1 else 0) (int_of_n mv)) outs) in
  (* buckets touched, in order of first touch *)
  let seen = Hashtbl.create 16 in
  let touched = List.filter_map (fun o ->
      match op_hash o with
      | None -> None
      | Some h ->
        let k = m_tt_index h in
        let key = hex_of_n k in
        if Hashtbl.mem seen key then None else (Hashtbl.add seen key (); Some (key, k))) ops in
  let entry (e : tt_entry) =
    Printf.sprintf "%s/%d/%d/%d/%d" (hex_of_n e.te_hash) (int_of_n e.te_move) (int_of_z e.te_score)
      (int_of_n e.te_depth) (int_of_n e.te_ant) in
  let buckets = String.concat "," (List.map (fun (key, k) ->
      key ^ "=" ^ String.concat "|" (List.map entry (st.st_tab k))) touched) in
  Printf.sprintf "res=%s he=%d full=%d buckets=%s" res (int_of_n st.st_he) (int_of_n (m_hash_full st.st_he)) buckets

let () = Reg.register "C14" c14
