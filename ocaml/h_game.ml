(* NEWPOS: the model of game.NewPosition; GAMESPEC: the same dialogue replayed on the FIDE specification *)
open Clemens_model
open Conv
open Posio

let newpos_h (line : string) : string =
  let tokens = List.map bytes_of_string (split_ws line) in
  let show kind g =
    kind ^ " " ^ posline g.g_pos ^ " H:" ^ String.concat "," (List.map hex_of_n g.g_hist) in
  match m_new_position_cmd tokens with
  | NPNone _ -> "none"
  | NPSet g -> show "set" g
  | NPMoveError g -> show "moveerr" g
  | NPPanic -> "panic"

let () = Reg.register "NEWPOS" newpos_h

(* spec side: "fen <6 fields> moves m1 m2 ..." *)
let gamespec_h (line : string) : string =
  match split_ws line with
  | "fen" :: a :: b :: c :: d :: e :: f :: rest ->
    let fen = String.concat " " [a; b; c; d; e; f] in
    (match read_fen (text_of_string fen) with
     | None -> "badfen"
     | Some s ->
       let moves = (match rest with "moves" :: ms -> ms | _ -> []) in
       let final = List.fold_left (fun acc m ->
         match acc with
         | None -> None
         | Some s ->
           (match read_move (text_of_string m) with
            | Some fm -> if legal s fm then Some (apply s fm) else None
            | None -> None)) (Some s) moves in
       (match final with
        | None -> "illegal"
        | Some s ->
          (* the engine's ply counter is 8 bits wide: full-move number modulo 128 *)
          let s' = { s with b_full = z_of_int (((int_of_z s.b_full - 1) mod 128) + 1) } in
          string_of_text (show_fen s')))
  | _ -> "badcase"

let () = Reg.register "GAMESPEC" gamespec_h
