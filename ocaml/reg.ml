(* Registry of model handlers: property key -> (case line -> observable line). *)
let handlers : (string, string -> string) Hashtbl.t = Hashtbl.create 32
let register (key : string) (h : string -> string) : unit = Hashtbl.replace handlers key h
