(* Conversions between OCaml native values / text and the extracted Coq number types.
   Bitboards and hashes (uint64) travel as hexadecimal text; everything else fits a 63-bit int. *)
open Clemens_model

let rec pos_of_int (i : int) : positive =
  if i = 1 then XH
  else if i land 1 = 0 then XO (pos_of_int (i lsr 1))
  else XI (pos_of_int (i lsr 1))

let n_of_int (i : int) : n = if i = 0 then N0 else if i < 0 then failwith "n_of_int" else Npos (pos_of_int i)
let z_of_int (i : int) : z = if i = 0 then Z0 else if i > 0 then Zpos (pos_of_int i) else Zneg (pos_of_int (- i))

let rec int_of_pos (p : positive) : int =
  match p with XH -> 1 | XO q -> 2 * int_of_pos q | XI q -> 2 * int_of_pos q + 1
let int_of_n (x : n) : int = match x with N0 -> 0 | Npos p -> int_of_pos p
let int_of_z (x : z) : int = match x with Z0 -> 0 | Zpos p -> int_of_pos p | Zneg p -> - (int_of_pos p)

let rec nat_of_int (i : int) : nat = if i <= 0 then O else S (nat_of_int (i - 1))
let rec int_of_nat (x : nat) : int = match x with O -> 0 | S y -> 1 + int_of_nat y

(* hex text <-> N, any width *)
let n_of_hex (s : string) : n =
  (* build bits little-endian *)
  let bits = ref [] in
  String.iter (fun c ->
    let v = match c with
      | '0'..'9' -> Char.code c - 48
      | 'a'..'f' -> Char.code c - 87
      | 'A'..'F' -> Char.code c - 55
      | _ -> failwith ("n_of_hex: " ^ s) in
    bits := (v land 1 = 1) :: (v land 2 = 2) :: (v land 4 = 4) :: (v land 8 = 8) :: !bits) s;
  (* !bits is little-endian (lsb first) because each nibble was consed msb-last *)
  let rec strip l = match l with false :: r -> strip r | _ -> l in
  let be = strip (List.rev !bits) in  (* msb first, leading zeros stripped *)
  match be with
  | [] -> N0
  | _ :: rest -> Npos (List.fold_left (fun acc b -> if b then XI acc else XO acc) XH rest)

let hex_of_n (x : n) : string =
  match x with
  | N0 -> "0"
  | Npos p ->
    let rec bits p acc = match p with
      | XH -> true :: acc | XO q -> bits q (false :: acc) | XI q -> bits q (true :: acc) in
    (* bits returns msb first? p's outermost constructor is the lsb. *)
    let rec le p = match p with XH -> [true] | XO q -> false :: le q | XI q -> true :: le q in
    ignore bits;
    let l = le p in
    let rec nibbles l acc = match l with
      | [] -> acc
      | _ ->
        let take i l = match l with [] -> (false, []) | b :: r -> ignore i; (b, r) in
        let (b0, l) = take 0 l in let (b1, l) = take 1 l in
        let (b2, l) = take 2 l in let (b3, l) = take 3 l in
        let v = (if b0 then 1 else 0) + (if b1 then 2 else 0) + (if b2 then 4 else 0) + (if b3 then 8 else 0) in
        nibbles l ("0123456789abcdef".[v] :: acc) in
    let cs = nibbles l [] in
    String.init (List.length cs) (fun i -> List.nth cs i)

let split_ws (s : string) : string list =
  List.filter (fun t -> t <> "") (String.split_on_char ' ' s)
