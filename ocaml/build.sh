#!/bin/sh
# Build the model driver from the extracted model (coq/clemens_model.ml[i]) and ocaml/*.ml.
set -e
cd "$(dirname "$0")"
mkdir -p _build
cp ../coq/clemens_model.ml ../coq/clemens_model.mli conv.ml posio.ml reg.ml h_*.ml driver.ml _build/
cd _build
HS=$(ls h_*.ml | LC_ALL=C sort)
ocamlfind ocamlopt -w -a -package str -linkpkg clemens_model.mli clemens_model.ml conv.ml posio.ml reg.ml $HS driver.ml -o driver
