open Clemens_model
open Conv

(* case: black plys wtime btime winc binc movestogo movetime *)
let c08 (line : string) : string =
  match List.map int_of_string (split_ws line) with
  | [black; plys; wtime; btime; winc; binc; mtg; movetime] ->
    let sp = { gp_wtime = z_of_int wtime; gp_btime = z_of_int btime; gp_winc = z_of_int winc;
               gp_binc = z_of_int binc; gp_movestogo = z_of_int mtg; gp_movetime = z_of_int movetime } in
    string_of_int (int_of_z (m_calc_time (black = 1) (z_of_int plys) sp))
  | _ -> failwith "c08: bad case"

let () = Reg.register "C08" c08
let () = Reg.register "C08B" c08
