open Clemens_model
open Conv

(* C07: parseGo and the input dispatch.

   Transport convention shared with harness/cmd/huci: in case lines and observables every byte
   outside printable ASCII, and the backslash itself, travels as \xHH (two lower-case hex
   digits); so a case is always one line of plain ASCII.

   key "C07":  case = "go" followed by the tokens handed to parseGo, separated by single blanks
               observable = the eight SearchParameter fields, then one tab-separated entry per
               printed line; or "panic"
   key "C07D": case = ">" followed by one raw input line
               observable = which handler the line is dispatched to and its tokens *)

let hex = "0123456789abcdef"

(* bytes -> transport text; [keep_space]: a blank stays a blank (printed lines, raw lines) *)
let esc (keep_space : bool) (bs : int list) : string =
  let b = Buffer.create 64 in
  List.iter (fun c ->
    if (c > 32 && c < 127 && c <> 92) || (c = 32 && keep_space) then Buffer.add_char b (Char.chr c)
    else (Buffer.add_string b "\\x"; Buffer.add_char b hex.[c lsr 4]; Buffer.add_char b hex.[c land 15])) bs;
  Buffer.contents b

let hexval (c : char) : int =
  match c with
  | '0'..'9' -> Char.code c - 48
  | 'a'..'f' -> Char.code c - 87
  | _ -> failwith "c07: bad escape"

let unesc (s : string) : int list =
  let n = String.length s in
  let rec go i acc =
    if i >= n then List.rev acc
    else if s.[i] = '\\' then begin
      if i + 3 > n - 1 then failwith "c07: truncated escape";
      if s.[i + 1] <> 'x' then failwith "c07: bad escape";
      go (i + 4) ((hexval s.[i + 2] * 16 + hexval s.[i + 3]) :: acc)
    end else go (i + 1) (Char.code s.[i] :: acc) in
  go 0 []

let bytes_to_n (bs : int list) : n list = List.map n_of_int bs
let n_to_bytes (ns : n list) : int list = List.map int_of_n ns

(* int64 values (2^63-1 does not fit an OCaml int) *)
let rec i64_of_pos (p : positive) : int64 =
  match p with
  | XH -> 1L
  | XO q -> Int64.mul 2L (i64_of_pos q)
  | XI q -> Int64.add (Int64.mul 2L (i64_of_pos q)) 1L
let string_of_z64 (x : z) : string =
  match x with
  | Z0 -> "0"
  | Zpos p -> Int64.to_string (i64_of_pos p)
  | Zneg p -> Int64.to_string (Int64.neg (i64_of_pos p))   (* 2^63 wraps to min_int, as it should *)

let replace_first (s : string) (pat : string) (by : string) : string =
  let n = String.length s and m = String.length pat in
  let rec find i = if i + m > n then -1 else if String.sub s i m = pat then i else find (i + 1) in
  let i = find 0 in
  if i < 0 then failwith "c07: pattern not found"
  else String.sub s 0 i ^ by ^ String.sub s (i + m) (n - i - m)

(* the text of a printed line; the quoted token of a failed Atoi is compared literally only
   for tokens strconv.Quote leaves as they are (see Uci/ParseGo.v), otherwise by kind *)
let event_line (ev : event) : string =
  match ev with
  | EvBroken (k, v, e) when not (simple_token v) ->
    let t = esc true (n_to_bytes (event_text (EvBroken (k, [], e)))) in
    replace_first t "parsing \"\"" "parsing <non-simple>"
  | _ -> esc true (n_to_bytes (event_text ev))

let c07 (line : string) : string =
  match String.split_on_char ' ' line with
  | "go" :: toks ->
    let toks = List.filter (fun t -> t <> "") toks in
    let ts = List.map (fun t -> bytes_to_n (unesc t)) toks in
    (match parse_go ts with
     | Panic -> "panic"
     | Err -> "MODEL-FUEL-EXHAUSTED"
     | Ok (sp, evs) ->
       let fields = Printf.sprintf "wtime=%s btime=%s winc=%s binc=%s movestogo=%s depth=%s movetime=%s infinite=%d"
           (string_of_z64 sp.sp_wtime) (string_of_z64 sp.sp_btime) (string_of_z64 sp.sp_winc)
           (string_of_z64 sp.sp_binc) (string_of_z64 sp.sp_movestogo) (string_of_z64 sp.sp_depth)
           (string_of_z64 sp.sp_movetime) (if sp.sp_infinite then 1 else 0) in
       String.concat "\t" (fields :: List.map event_line evs))
  | _ -> failwith "c07: case does not start with go"

let toks_out (name : string) (ts : token list) : string =
  String.concat " " (name :: List.map (fun t -> esc false (n_to_bytes t)) ts)

let c07d (line : string) : string =
  if String.length line = 0 || line.[0] <> '>' then failwith "c07d: case does not start with >";
  let raw = unesc (String.sub line 1 (String.length line - 1)) in
  match m_handle_line (bytes_to_n raw) with
  | CUci -> "uci"
  | CQuit -> "quit"
  | CIsReady -> "isready"
  | CNewGame -> "ucinewgame"
  | CPosition ts -> toks_out "position" ts
  | CGo ts -> toks_out "go" ts
  | CStop -> "stop"
  | CNone -> "none"

let () = Reg.register "C07" c07
let () = Reg.register "C07D" c07d
