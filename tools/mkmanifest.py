#!/usr/bin/env python3
"""Regenerates MANIFEST.json from the table below (claimed checks) and properties.jsonl."""
import json
import os
import subprocess

V = os.path.dirname(os.path.dirname(os.path.abspath(__file__)))

COMMON_NOTE = ("trusted: Coq 8.16.1 kernel (vm_compute, no native_compute), ExtrOcamlBasic extraction + OCaml driver, "
               "Go harness + build-tag verif hooks, generated constants (harness/cmd/dump); ")

CLAIMED = {
    "C04": dict(
        text="Coq theorems over the full Gallina transliteration of Search/SearchIterative/SearchRoot/negamax/quiescence (int16 windows, "
             "uint8 depth/ply, all prunings, PVS, tables as explicit state), for ARBITRARY table, cache and heuristic contents, any "
             "depth and any cancellation point: every line negamax returns is a sequence of engine-legal moves from its position "
             "(under the window condition 'alpha <> -32768 or closed window', shown necessary by a machine-checked witness with a junk "
             "cache entry); the answer of Search() is the null move or a generated move whose successor is legal - unconditionally - and, "
             "for positions satisfying the C10 invariant, a member of the legal move list; s.PV changes only to the line of a completed "
             "in-window root search; every printed PV comes from such a search; the answer is the head of the last printed PV. The clause "
             "'null move only when no legal move exists' is proved in part (it needs score-range reasoning; statement kept, see DESIGN) and "
             "is checked by the oracle. Tied to the code by differential runs of whole searches under a counting context (answer, every "
             "info line, node and poll counters) incl. warmed tables; oracle: answer and PVs replayed on the engine's generator.",
        note="PV legality of info lines excludes runs in which an info line has score -32718 (aspiration alpha wraps to -32768); 'engine-legal' = FIDE-legal via C01",
        technique="Coq proof (induction on search fuel with loop invariants, arbitrary shared-table state) + differential correspondence check of whole searches",
        ref="DESIGN.md section 6, C04"),
    "C05": dict(
        text="Coq theorems over the same search model: once the cancellation oracle is due, negamax returns the error at its first poll "
             "with NO node counted, NO table/cache/heuristic write and the repetition stack unchanged (quiescence: exactly its one "
             "pre-poll increment); a call during which the oracle fired never returns a value; the repetition stack, PV and output are "
             "balanced on every path; no info line reports a depth above the requested one; with the repaired window test the "
             "iterative-deepening loop runs at most two root searches per depth (the unrepaired loop is refuted on the fool's-mate "
             "position by kernel evaluation); the fallback depth-1 search runs iff no move is known and cannot be cancelled. Fuel "
             "sufficiency (termination of one root search) is NOT proved in general - stated as the bounded-check-chain hypothesis. "
             "Wall-clock promptness is TESTED on the real process (movetime/clock/depth limits, go infinite + stop, terminal positions).",
        note="requested depth < 255 (uint8 depth wraps at 255, as in the Go loop); wall-clock clause tested not proved; fuel sufficiency hypothesis",
        technique="Coq proof (cancellation/unwinding invariants, loop bound) + differential correspondence check + process-level watchdog",
        ref="DESIGN.md section 6, C05"),
    "C07": dict(
        text="Coq theorems over a byte-level model of parseGo (Go slice semantics, strconv.Atoi, named-return semantics), "
             "removePrefixGarbage and the handleInput dispatch: parse_go never panics for ANY token list; every go line of distinct "
             "standard parameters in any order with in-range values yields exactly the record those parameters denote (nodes/mate "
             "acknowledged, fields untouched; empty or 'infinite' => infinite); unknown prefixes are skipped, lines without a command "
             "word dispatch to nothing; a missing or non-integer value is reported and never panics. Tied to the code by differential "
             "runs of VerifParseGo (fields and printed info strings) and of the real handleInput with a recording game; the oracle is "
             "an independent reference parser; plus process-level liveness scripts against the real engine binary (tested, not proved).",
        note="token lists after strings.Fields (ASCII whitespace modelled); depth 0..255; strconv.Quote modelled for printable ASCII "
             "tokens (others compared by event kind); positions given to the engine are legal game states; lines <= 64 KiB",
        technique="Coq proof (induction over token lists, atoi/itoa round trip) + differential correspondence check + process liveness probe",
        ref="DESIGN.md section 6, C07"),
    "C08": dict(
        text="Coq theorems over the Gallina transliteration of calculateTime (int64 wrap explicit): budget < mover's clock, "
             "budget < movetime, independence from the opponent's clock/increment, for all inputs below 2^40 ms; tied to the Go "
             "function on every run by a differential run (grid + random) of VerifCalculateTime against the extracted model; the "
             "property inequality is also evaluated directly on the Go result.",
        note="inputs < 2^40 ms; Go int is 64-bit",
        technique="Coq proof (lia over Z.quot) + differential correspondence check against the extracted model",
        ref="DESIGN.md section 6, C08"),
    "C09": dict(
        text="Coq theorems over the Gallina transliteration of the Zobrist code, for an ARBITRARY key table: the from-scratch hash "
             "reads only placement, side, held rights and en-passant file; every generated move, null move, unmake-null (whole record "
             "restored), FEN load and New() keeps 'hash = from-scratch hash'; hence every position reachable by legal moves and null "
             "moves has it and two reachable positions equal in those four components have equal hashes (given that legal moves preserve "
             "the C10 invariant - an explicit premise); for the generated keys, positions differing in exactly one component hash "
             "differently; the unrepaired code is refuted with concrete witnesses (D1). Tied to the code by whole-struct comparison after "
             "every operation of random histories; oracle: incremental vs independently recomputed hash vs FEN reload.",
        note="distinctness for arbitrary pairs of positions is not claimable for a 64-bit hash (stated); reachability theorems carry the C10 step as premise",
        technique="Coq proof (XOR algebra, induction over histories) + differential correspondence check",
        ref="DESIGN.md section 6, C09"),
    "C11": dict(
        text="Coq theorems over the byte-level model of NewFromFen / ToFen (Go UTF-8 decoding, strings.Split, strconv.Atoi, "
             "unicode.IsDigit as an arbitrary table, uint8 cursor arithmetic): for EVERY byte string parsing never panics; for every "
             "position satisfying the C10 invariant (hash consistent, ply parity) parse(print p) = p in all ten fields; every "
             "syntactically canonical FEN parses and re-prints to itself, and printed FENs are canonical. Tied to the code by "
             "differential runs over printed FENs, structured mutants and raw bytes (whole struct + re-printed text compared); the "
             "oracle checks no-panic and the round trip on the implementation alone.",
        note="counters within their byte widths (full-move number <= 128, half-move clock <= 255); unicode.IsDigit table generated from the toolchain",
        technique="Coq proof (byte-level parser/printer inverse, totality by induction over runes) + differential correspondence check",
        ref="DESIGN.md section 6, C11"),
    "C12": dict(
        text="Coq theorems, for all 64 squares and ALL occupancies (no bound): the eight one-step shifts and the fills are "
             "characterised bit by bit; the ray walker equals the geometric 'open line up to and including the first blocker' set; "
             "edge squares and the origin bit are irrelevant; rook/bishop/queen AttacksBySquare (as lookup of occ & mask) equal the "
             "geometric sets; for the GENERATED magic numbers the table fill of magic.Init completes without collision and the lookup "
             "equals the walker for every occupancy (perfect-hash condition checked by the kernel over all 107,648 subsets), and for ANY "
             "multiplier for which the fill succeeds; knight/king/pawn tables and pawn pushes equal their geometric definitions; for "
             "positions with well-formed views SquareAttackedBy is exactly the set of attacking pieces and IsInCheck is exact. Tied to "
             "the code EXHAUSTIVELY for tables and masks, by random occupancies beyond, and on sampled positions for attackers.",
        note="attackers/in-check for positions satisfying the view clauses of the C10 invariant; generated tables/magics re-checked by the kernel whenever they change",
        technique="Coq proof (bit-level lemmas, induction along rays, kernel-evaluated perfect-hash check on generated magics) + exhaustive correspondence check",
        ref="DESIGN.md section 6, C12"),
    "C14": dict(
        text="Coq theorems over the Gallina transliteration of Get/PotentiallySave/Reset (bucket scan, replacement rule, packed "
             "age/bound byte, int16 mate adjustment) for ALL operation sequences from the empty table (induction with a ghost log of "
             "saves): a usable probe is justified by an earlier save of that hash with at least the requested depth and consistent with "
             "its bound; never stored yields nothing; the probe after a store finds an entry for the hash (strongest true form; the naive "
             "form is refuted with a witness). Tied to the real global table by differential runs of random operation sequences with forced "
             "bucket collisions; a log-based oracle in the harness judges the property on the implementation alone.",
        note="non-zero hashes; exact-score clause for scores outside the mate range (inside it the ply-adjusted score, as stated in the theorem)",
        technique="Coq proof (invariant over operation histories with ghost log) + differential correspondence check",
        ref="DESIGN.md section 6, C14"),
    "C16": dict(
        text="Coq theorems over the Gallina transliteration of evalWithCache / the direct-mapped cache, for ALL evaluation sequences: "
             "the uncached evaluation depends only on the bitboards, occupancy sets, side and the bit 'half-move clock >= 100' (never on "
             "rights, en-passant square, hash, ply); from any sound cache - in particular the empty one - under the no-collision "
             "hypothesis every hashed cache needs (hash -> evaluation key injective on the universe of positions evaluated, non-zero "
             "hashes) every cached result equals the uncached one (error classes included) and the cache stays sound; clock twins across "
             "the 100 boundary never leak in either order (no injectivity hypothesis needed); the unrepaired function is refuted with the "
             "D9 witness in both directions. Tied to Evaluation() by differential runs of evaluation sequences with clock/rights/en-passant "
             "twins, revisits and same-slot pairs; oracle: cached vs uncached on the implementation.",
        note="hash injectivity on the evaluated universe and non-zero hashes are explicit hypotheses (false in general for any 64-bit hash; measured in the runs)",
        technique="Coq proof (cache soundness invariant over histories) + differential correspondence check",
        ref="DESIGN.md section 6, C16"),
    "C17": dict(
        text="Coq theorem over the Gallina transliteration of both generators: for every position satisfying the C10 invariant the "
             "capture generator's list EQUALS (same order, hence same multiset) the filter of the full generator's list by 'captures "
             "something' (target occupied or en passant) - pushes incl. push promotions and castling are shown to land on empty squares, "
             "capture promotions are kept as blocks of four, the en-passant block is identical. Tied to GeneratePseudoLegalMoves / "
             "GeneratePseudoLegalCaptures by differential runs on sampled positions (lists compared in order); the oracle compares Go's "
             "two lists with each other.",
        note="positions satisfying Inv (C10)",
        technique="Coq proof (list equality via bits/filter lemmas) + differential correspondence check",
        ref="DESIGN.md section 6, C17"),
    "C18": dict(
        text="Coq theorem C18_see_sign, without residual premise: for every position satisfying the C10 invariant with at most 32 men "
             "and every legal non-en-passant capture, the sign of StaticExchangeEvaluation equals the sign of the reference the "
             "property describes (Eval/SeeRef.v: attackers recomputed geometrically on the current mailbox after every capture so that "
             "pieces behind join in, least valuable attacker first, either side may stop, no legality, engine piece values, king 0). "
             "Ingredients proved: the pruned swap list and the full one have the same sign for ANY value sequence; the full swap fold "
             "is the minimax; after a king capture the tail cannot change the value; the incrementally maintained attacker set equals "
             "the from-scratch geometric attackers except behind a king (uses C12's slider exactness); at most 31 capturers so gain[32] "
             "suffices and SEE never panics. Tied to the code by the SEE value of every legal capture on sampled positions against the "
             "extracted model, and Go's sign against the extracted reference (a difference is a failing input) and against an independent "
             "Go reference.",
        note="at most 32 men on the board (material premise, explicit); non-en-passant captures; piece values 0..1000 (checked for the generated constants)",
        technique="Coq proof (list-level swap/minimax lemmas + incremental-attacker invariant on top of C12) + differential correspondence check + extracted reference as oracle",
        ref="DESIGN.md section 6, C18"),
    "C19": dict(
        text="Coq theorems over the Gallina transliteration of scoreMoves and MoveList.SortIndex, for ARBITRARY heuristic state "
             "(PV move, table move, killers, arbitrary history and counter functions): scoring changes only bits 16..31 of every "
             "move; the SortIndex sweep visits a permutation of the list in non-increasing score order, every partial sweep is a "
             "prefix of it; composed: for positions satisfying the C10 invariant the visited moves (low 16 bits) are a permutation "
             "of exactly the generated moves. Ordering never panics when no generated move targets a king (explicit premise, shown "
             "necessary; follows from Inv + C12). Tied to VerifScoreMoves + SortIndex by differential runs over random heuristic states.",
        note="move lists up to 255 entries (Go array bound; longest observed 138); no-king-target premise for totality",
        technique="Coq proof (permutation/sortedness of selection sweep, bit-field preservation) + differential correspondence check",
        ref="DESIGN.md section 6, C19"),
}


def main():
    props = [json.loads(l) for l in open(os.path.join(V, "properties.jsonl"))]
    hooks = subprocess.run(["git", "-C", "/repo", "log", "--format=%h %s"], capture_output=True, text=True).stdout.splitlines()
    hook_commits = [l.split()[0] for l in hooks if l.split(" ", 1)[1].startswith("verif hooks")]
    checks = []
    for pid in sorted(CLAIMED):
        c = CLAIMED[pid]
        checks.append({
            "property_id": pid,
            "quick_cmd": "./tools/check %s --tier quick" % pid,
            "thorough_cmd": "./tools/check %s --tier thorough" % pid,
            "evidence_file": "/verif/evidence/%s.json" % pid,
            "replay_cmd_template": "./tools/check %s --replay {path}" % pid,
            "engine": "coq-model+correspondence",
            "level_claimed": {"category": c.get("category", "proof"), "text": c["text"], "design_ref": c["ref"]},
            "level_note": COMMON_NOTE + c["note"],
            "technique": c["technique"],
        })
    na = json.load(open(os.path.join(V, "tools", "not_applicable.json"))) if os.path.exists(os.path.join(V, "tools", "not_applicable.json")) else {}
    m = {
        "version": 1,
        "setup_cmd": "./tools/setup",
        "hooks": {"guard": "verif",
                  "enable": "go build -tags verif (add-only files *verif_hooks.go with //go:build verif; harness built with -tags verif)",
                  "baseline_off_cmd": "cd /repo && GOFLAGS=-mod=mod GOPROXY=off GOSUMDB=off go test -vet=off -count=1 ./...",
                  "source_commits": hook_commits, "add_only": True},
        "engines": [{"name": "coq-model+correspondence",
                     "path": "/verif/coq, /verif/harness, /verif/ocaml, /verif/tools",
                     "serves_properties": sorted(CLAIMED),
                     "kind_free_text": "hand-written Gallina model with constants generated from the Go build, theorems in Coq 8.16.1, "
                                       "model extracted to OCaml and run against the Go implementation on the same inputs; independent "
                                       "oracles evaluate the property on the implementation when a proof or the correspondence breaks"}],
        "checks": checks,
        "notes": "See DESIGN.md. known-findings.txt lists repaired defects (fixed:) and any recorded finding.",
        "not_applicable": [{"property_id": p["id"],
                            "reason": na.get(p["id"], "check under construction in this session; not claimed until its model, theorems "
                                                      "and correspondence run (see DESIGN.md section 10)")}
                           for p in props if p["id"] not in CLAIMED],
    }
    json.dump(m, open(os.path.join(V, "MANIFEST.json"), "w"), indent=1)
    print("claimed:", sorted(CLAIMED))


if __name__ == "__main__":
    main()
