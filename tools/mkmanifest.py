#!/usr/bin/env python3
"""Regenerates MANIFEST.json from the table below (claimed checks) and properties.jsonl."""
import json
import os
import subprocess

V = os.path.dirname(os.path.dirname(os.path.abspath(__file__)))

COMMON_NOTE = ("trusted: Coq 8.16.1 kernel (vm_compute, no native_compute), ExtrOcamlBasic extraction + OCaml driver, "
               "Go harness + build-tag verif hooks, generated constants (harness/cmd/dump); ")

CLAIMED = {
    "C01": dict(
        text="Coq theorems, closed (no residual premise beyond the C10 invariant and a well-formed key table): for every position "
             "satisfying the invariant the engine's legal move list (generate, make on a copy, keep if IsLegal), read through the "
             "abstraction to the independent FIDE specification Rules/Fide.v (mailbox + coordinates, no bitboards), is a PERMUTATION of "
             "the specification's legal moves - none missing, duplicated or extra; the pseudo-legal generator is exact class by class "
             "(sliders, leapers, pushes and double pushes, captures, en passant, exactly the four promotions on the last rank, castling "
             "= right held, path empty, not out of / through / into check); the engine's attack and check tests equal the "
             "specification's; the legality filter equals 'does not leave the mover's king attacked' (also for en passant exposing the "
             "king); hence perft of cmd/perft equals the specification's perft for EVERY depth. Tied to the code three ways on every "
             "run: Go legal moves + successors vs the extracted specification, Go Perft vs the specification's perft and the published "
             "tables, Go generators/filter/attackers vs the extracted engine model.",
        note="positions satisfying the C10 invariant (= the property's 'legal position'); Go int accumulator of perft modelled as Z; the Go move list "
             "holds 255 moves (kernel-checked: covers the 218 of legal chess and the two record positions; the model's lists are unbounded)",
        technique="Coq proof (refinement engine bitboard model -> FIDE mailbox specification, on top of C12, C02, C10) + differential correspondence check against the extracted specification and model",
        ref="DESIGN.md section 0.4, C01"),
    "C02": dict(
        text="Coq theorems: for every position satisfying the C10 invariant and EVERY generated (pseudo-legal, a fortiori legal) move, "
             "abs(MakeMove p m) = apply (abs p) (decode m) where apply is the successor function of the independent FIDE specification "
             "(placement incl. castling rook / en-passant victim / promotion piece, side, rights lost by king or rook moves and rook "
             "captures at home, en-passant target after every double push, half-move clock, full-move number), under exactly the counter "
             "range the bytes can represent - proved necessary and sufficient (ply < 255 with parity = side, clock < 255 unless the move "
             "resets it), with the wrap at the edge stated; placement/side/rights/en-passant need no counter hypothesis; parity holds for "
             "New() and every parsed FEN and is kept; the move kind in the word is the one the rules recognise from the board; the "
             "successor is a function of the rules-level position alone; along every legal game within the range the engine position is "
             "the fold of apply. Tied to the code by successor FENs of every legal move vs the extracted specification and whole-struct "
             "comparison of histories vs the engine model; value semantics of Position (no reference-typed field) checked by the harness.",
        note="counter range ply < 255, half-move clock < 255 (the property's stated range); 'recoverable from a copy' is value semantics in Go, tested by copy-before/compare-after",
        technique="Coq proof (refinement of MakeMove to the FIDE successor, case analysis over move classes) + differential correspondence check",
        ref="DESIGN.md section 0.4, C02"),
    "C03": dict(
        text="Coq theorems over byte-level models of Move.String, MakeMoveFromString and NewPosition: for every generated move of every "
             "position satisfying the C10 invariant the parser rebuilds the SAME 32-bit move word from the printed text (the kind "
             "inferred from text and board - king moving two files, pawn changing file onto an empty square, fifth character - is the "
             "generated kind), so MakeMoveFromString(String(m)) = MakeMove(m); printed texts are injective on generated moves; the "
             "position command on the printed moves of any legal game ends in exactly the folded MakeMove position with exactly the "
             "successive hashes on the repetition stack, for startpos and for fen, as long as the 1024-entry stack is not overrun (sharp: "
             "one more is an index panic; 600 plies fit); and end-to-end against the FIDE specification: every FIDE-legal move written "
             "in UCI notation is accepted and yields the FIDE successor, and `position startpos|fen F moves ...` of a FIDE-legal game "
             "yields the FIDE game state; at the level of the whole-engine model the input LINE sets that position from any non-running state and the text of a "
             "bestmove line appended to the next position command is accepted and sets the FIDE successor (GUI dialogue). Tied to the code by NewPosition runs (whole struct + history) vs the model, replay of the same "
             "UCI moves on the extracted specification, print/parse round trips of every legal move, and whole UCI sessions through the real "
             "handleInput (position, go, bestmove; complete stdout text) vs the sequential engine model Uci/Engine.v.",
        note="moves form a legal game; counters within byte range for the full-move/half-move fields (placement, side, rights, en-passant target unconditional); unicode.IsDigit table arbitrary",
        technique="Coq proof (byte-level print/parse inverse on generated moves, induction over the game) + differential correspondence check against model and extracted specification",
        ref="DESIGN.md section 0.4, C03"),
    "C06": dict(
        text="Coq theorems over a labelled transition system of the command loop (Uci/Conc.v: reader thread with the handlers, "
             "mutex, state flag, search goroutines; one step = the code between two scheduling points of the Go source; the search is "
             "abstract: returns by itself iff finite, or once cancelled), for ALL well-formed dialogues and ALL schedules (induction "
             "with an 18-clause invariant, not enumeration): no position/go is ever refused; at most one bestmove per go; in every "
             "maximal execution of a dialogue whose infinite searches are stopped every go is answered exactly once and every isready "
             "too; an executed stop always finds its search and the bestmove follows within three steps of that goroutine; the reader "
             "never blocks on the mutex and answers isready within seven of its own steps; deadlock freedom. The three statement orders "
             "of the original code are each refuted by an explicit schedule (D6-D8, repaired in /repo). The LTS and the sequential whole-engine model "
             "(Uci/Engine.v, real search and parsers) are proved to agree under the sequential schedule (SeqRef: same events, same state), which transfers the "
             "all-schedule clauses to the engine model's sessions. Tied to the code by FORCING "
             "schedules on the real handleInput/StartSearch/search goroutine through named scheduling points: every maximal execution "
             "of twelve short dialogues plus random ones, compared step-for-step with the model's prediction; random schedules judged by "
             "the property alone; real-process runs with back-to-back writes.",
        note="wall-clock promptness and one-write-per-output-line atomicity are tested (process runs), not proved; GUI obeys 'position/go only after bestmove'; ucinewgame/quit outside the modelled alphabet",
        technique="Coq proof (invariant over all interleavings of an LTS) + forced-schedule correspondence check on the real handlers + process-level test",
        ref="DESIGN.md section 0.4, C06"),
    "C10": dict(
        text="Coq theorems over the bit-level model of Position: the executable invariant (square array, twelve bitboards and "
             "occupancy sets describe the same placement; one king each; no back-rank pawn; castling rights imply home squares; "
             "en-passant target behind a just-advanced pawn; side that just moved not in check; byte counters) holds for New(), is "
             "preserved by every legal move (all clauses but the check clause by EVERY generated move: in particular no king is ever "
             "captured and SetPiece never hits an occupied square) and by null moves made when not in check; hence for every sequence "
             "of operations and every reachable position, together with hash consistency (closing C09's premise); and from such "
             "positions move generation, MakeMove and IsLegal never panic. Tied to the code by whole-struct comparison after every "
             "operation of random histories; the oracle evaluates the invariant on the Go struct with a naive mailbox re-implementation.",
        note="start positions satisfy the invariant (New(), or a FEN of a legal position: executable premise)",
        technique="Coq proof (invariant preservation through the piece primitives and MakeMove stages, using C12 attack exactness) + differential correspondence check",
        ref="DESIGN.md section 0.4, C10"),
    "C13": dict(
        text="Coq theorems over the full search model (Search/Negamax.v): whenever the root has a mating move, Search() answers a "
             "mating move - for every requested depth below 255, every cancellation point incl. immediate timeout (then the "
             "uncancellable depth-1 fallback decides), repaired or unrepaired window loop, every heuristic state, and every shared "
             "table/cache state that contains no depth>=1 entry under the hash of a checkmated successor and no mate value in the "
             "evaluation cache (both shown NECESSARY by kernel-run witnesses; both preserved by the search; the empty tables satisfy "
             "them); a checkmated node returns exactly -INF+ply for any window without writing anything; every adopted line is headed "
             "by a mating move, other windows fail high and are rejected. Remaining visible hypotheses: no 64-bit hash collision with a "
             "mated successor, fewer than 256 generated moves at the root and its successors (uint8 counter), evaluation not a mate value "
             "(C15, closed for legal material). END TO END (GameThm): if the FIDE position reached by a `position` command has a FIDE mate in one, "
             "the bestmove the whole-engine model prints for the following go line is a FIDE mating move, from any engine state reached from process "
             "start (one instance is proved with NO remaining hypothesis). Tied to the code by whole searches on generated mate-in-one positions (cold and warmed "
             "tables, cancel points) vs the extracted model; the oracle demands a mating answer.",
        note="hash-collision freedom w.r.t. mated successors and <256 generated moves are explicit hypotheses (the first is inherent to a 64-bit hash, the second an executable check); fuel <= 255",
        technique="Coq proof (score-range and PV-window invariants over the search model, induction on fuel and over iterations) + differential correspondence check",
        ref="DESIGN.md section 0.4, C13"),
    "C15": dict(
        text="Coq theorems over the int16-exact model of the static evaluation with the tables of the current Go build: "
             "eval(mirror p) = eval(p) for every position satisfying the C10 invariant (indeed from twelve 64-bit piece sets and one "
             "king each), with NO side condition - term by term (piece-square tables are mirror images: 768 kernel-checked "
             "comparisons; fills/shifts/attack sets commute with the flip; rank factors r and 7-r; odd truncating division), the one "
             "int16 corner (tapered sum = -32768) excluded for the build's tables by a divisibility argument and shown real for other "
             "tables; mirror preserves the invariant and is an involution. And for positions with the material accounting of legal "
             "chess (<= 8 pawns, promoted pieces paid for by missing pawns - an invariant of play, proved): the evaluation never panics, "
             "NO int16 operation wraps (result = the same formula over Z), |score| <= 14193 < 32667 = start of the mate range; the "
             "material hypothesis is shown necessary (nine pawns panic; 27 knights wrap; 36 queens give a mate-range score). Tied to "
             "the code by uncached scores and accumulators of positions and their independently built mirror FENs vs the model, incl. "
             "the model's own mirror function and material predicate.",
        note="bound for positions with legal material (material_ok, executable; holds for every position of every game from the start position: proved)",
        technique="Coq proof (equivariance of every evaluation term under the flip; per-term bounds with kernel-evaluated table extrema) + differential correspondence check",
        ref="DESIGN.md section 0.4, C15"),
    "C04": dict(
        text="Coq theorems over the full Gallina transliteration of Search/SearchIterative/SearchRoot/negamax/quiescence (int16 windows, "
             "uint8 depth/ply, all prunings, PVS, tables as explicit state), for ARBITRARY table, cache and heuristic contents, any "
             "depth and any cancellation point: every line negamax returns is a sequence of engine-legal moves from its position "
             "(under the window condition 'alpha <> -32768 or closed window', shown necessary by a machine-checked witness with a junk "
             "cache entry); the answer of Search() is the null move or a generated move whose successor is legal - unconditionally - and, "
             "for positions satisfying the C10 invariant, a member of the legal move list; s.PV changes only to the line of a completed "
             "in-window root search; every printed PV comes from such a search; the answer is the head of the last printed PV. 'Null move "
             "only when no legal move exists' is proved (C04Null): for a legal root (C10 invariant + material accounting) and an evaluation "
             "cache without mate values (necessary: witness; true of every engine-produced state) the answer is the null move IFF the root has "
             "no legal move, whatever the table, heuristics and cancellation point. Crash-freedom is proved (C05NoPanic): on a legal root no "
             "call of the search panics while the 1024-entry repetition stack has room (necessary: witness), and with termination an answer "
             "is always produced. END TO END (EngineE2E, over the whole-engine model Uci/Engine.v): from any engine state that is not RUNNING with a "
             "sane cache, `position startpos|fen .. moves ..` of a FIDE-legal game followed by a go line of standard parameters (depth not 255) prints "
             "exactly one bestmove, a FIDE-legal move of the FIDE position reached if one exists and the null move otherwise; the answer heads the last "
             "printed PV; the engine is idle again (remaining hypotheses: recursion depth of this search <= 255, discharged for ranked universes; stack room). "
             "Tied to the code by differential runs of whole searches under a counting context (answer, every "
             "info line, node and poll counters) incl. warmed tables, and of whole UCI sessions through the real handleInput (complete stdout "
             "text vs the sequential engine model Uci/Engine.v); oracle: answer and PVs replayed on the engine's generator.",
        note="PV legality of info lines excludes runs in which an info line has score -32718 (aspiration alpha wraps to -32768); 'engine-legal' = FIDE-legal via C01; "
             "null-move clause: recursion depth within the uint8 ply range (fuel <= 255); Go's MoveList holds 255 moves (legal chess: at most 218; the model's lists are unbounded)",
        technique="Coq proof (induction on search fuel with loop invariants, arbitrary shared-table state) + differential correspondence check of whole searches",
        ref="DESIGN.md section 6, C04"),
    "C05": dict(
        text="Coq theorems over the same search model: once the cancellation oracle is due, negamax returns the error at its first poll "
             "with NO node counted, NO table/cache/heuristic write and the repetition stack unchanged (quiescence: exactly its one "
             "pre-poll increment); a call during which the oracle fired never returns a value; the repetition stack, PV and output are "
             "balanced on every path; no info line reports a depth above the requested one; with the repaired window test the "
             "iterative-deepening loop runs at most two root searches per depth (the unrepaired loop is refuted on the fool's-mate "
             "position by kernel evaluation); the fallback depth-1 search runs iff no move is known and cannot be cancelled. TERMINATION is "
             "proved (C05Term): for every state, root and depth < 255 a loop bound of 510 and a recursion bound of 1282 suffice and the result "
             "is the same for all larger bounds (Search is a total function; fuel monotonicity); quiescence terminates by its ply counter and by "
             "material; under bounded check chains the recursion depth is depth + budget + 258 independently of the repetition stack. With "
             "crash-freedom (C05NoPanic) every go on a legal root yields exactly one answer while the repetition stack has room. Whole-call "
             "promptness (C05Prompt): the poll that reports done is the last poll of the call, every counted node was preceded by a poll of its own, "
             "so a call cancelled at poll k counts no node after it; a run that is not cancelled is the same run under every later stop. "
             "Wall-clock promptness is TESTED on the real process (movetime/clock/depth limits, go infinite + stop, terminal positions).",
        note="requested depth < 255 (uint8 depth wraps at 255, as in the Go loop); wall-clock clause tested not proved; the unconditional termination bound rests on the "
             "1024-entry repetition stack (overflow = Go panic, needs a game of > 1000 plies; C03's domain is 600)",
        technique="Coq proof (cancellation/unwinding invariants, loop bound, ranking-function termination, fuel monotonicity) + differential correspondence check + process-level watchdog",
        ref="DESIGN.md section 6, C05"),
    "C07": dict(
        text="Coq theorems over a byte-level model of parseGo (Go slice semantics, strconv.Atoi, named-return semantics), "
             "removePrefixGarbage and the handleInput dispatch: parse_go never panics for ANY token list; every go line of distinct "
             "standard parameters in any order with in-range values yields exactly the record those parameters denote (nodes/mate "
             "acknowledged, fields untouched; empty or 'infinite' => infinite); unknown prefixes are skipped, lines without a command "
             "word dispatch to nothing; a missing or non-integer value is reported and never panics; over the whole-engine model (Uci/Engine.v: handleInput, "
             "NewPosition, StartSearch + search goroutine, IsReady, StopSearch composed): every line is handled to its end for every engine state, line and oracle "
             "(the model's bounds are never hit, except `go depth 255` whose uint8 loop has no depth limit - refuted with a witness), unknown lines change "
             "nothing, prefixes are skipped, one bestmove per accepted go, refused go changes nothing, tables change only in go. Tied to the code by differential "
             "runs of VerifParseGo (fields and printed info strings) and of the real handleInput with a recording game; the oracle is "
             "an independent reference parser; whole UCI sessions through the real handleInput, game object and search goroutine against the "
             "sequential engine model Uci/Engine.v (complete stdout text); plus process-level liveness scripts against the real engine binary (tested, not proved).",
        note="token lists after strings.Fields (ASCII whitespace modelled); depth 0..255; strconv.Quote modelled for printable ASCII "
             "tokens (others compared by event kind); positions given to the engine are legal game states; lines <= 64 KiB",
        technique="Coq proof (induction over token lists, atoi/itoa round trip) + differential correspondence check + process liveness probe",
        ref="DESIGN.md section 6, C07"),
    "C08": dict(
        text="Coq theorems over the Gallina transliteration of calculateTime (int64 wrap explicit): budget < mover's clock, "
             "budget < movetime, independence from the opponent's clock/increment, for all inputs below 2^40 ms, and - for EVERY "
             "int64 input, whatever wraps - budget <= clock - max(clock/10, 50) and budget <= movetime - 50; tied to the Go "
             "function on every run by a differential run (grid + random, values up to 2^61 so that the wraps occur) of VerifCalculateTime against the extracted model; the "
             "property inequality is also evaluated directly on the Go result.",
        note="Go int is 64-bit; the wrap-free closed formula needs inputs < 2^40 ms, the bounds do not",
        technique="Coq proof (lia over Z.quot) + differential correspondence check against the extracted model",
        ref="DESIGN.md section 6, C08"),
    "C09": dict(
        text="Coq theorems over the Gallina transliteration of the Zobrist code, for an ARBITRARY key table: the from-scratch hash "
             "reads only placement, side, held rights and en-passant file; every generated move, null move, unmake-null (whole record "
             "restored), FEN load and New() keeps 'hash = from-scratch hash'; hence every position reachable by legal moves and null "
             "moves has it and two reachable positions equal in those four components have equal hashes (the C10 step is proved, so no "
             "premise remains); for the generated keys, positions differing in exactly one component hash "
             "differently; the unrepaired code is refuted with concrete witnesses (D1). Tied to the code by whole-struct comparison after "
             "every operation of random histories; oracle: incremental vs independently recomputed hash vs FEN reload.",
        note="distinctness for arbitrary pairs of positions is not claimable for a 64-bit hash (stated); ",
        technique="Coq proof (XOR algebra, induction over histories) + differential correspondence check",
        ref="DESIGN.md section 6, C09"),
    "C11": dict(
        text="Coq theorems over the byte-level model of NewFromFen / ToFen (Go UTF-8 decoding, strings.Split, strconv.Atoi, "
             "unicode.IsDigit as an arbitrary table, uint8 cursor arithmetic): for EVERY byte string parsing never panics; for every "
             "position satisfying the C10 invariant (hash consistent, ply parity) parse(print p) = p in all ten fields; every "
             "syntactically canonical FEN parses and re-prints to itself, and printed FENs are canonical. Tied to the code by "
             "differential runs over printed FENs, structured mutants and raw bytes (whole struct + re-printed text compared); the "
             "oracle checks no-panic and the round trip on the implementation alone.",
        note="counters within their byte widths (full-move number <= 128, half-move clock <= 255); unicode.IsDigit table generated from the toolchain",
        technique="Coq proof (byte-level parser/printer inverse, totality by induction over runes) + differential correspondence check",
        ref="DESIGN.md section 6, C11"),
    "C12": dict(
        text="Coq theorems, for all 64 squares and ALL occupancies (no bound): the eight one-step shifts and the fills are "
             "characterised bit by bit; the ray walker equals the geometric 'open line up to and including the first blocker' set; "
             "edge squares and the origin bit are irrelevant; rook/bishop/queen AttacksBySquare (as lookup of occ & mask) equal the "
             "geometric sets; for the GENERATED magic numbers the table fill of magic.Init completes without collision and the lookup "
             "equals the walker for every occupancy (perfect-hash condition checked by the kernel over all 107,648 subsets), and for ANY "
             "multiplier for which the fill succeeds; knight/king/pawn tables and pawn pushes equal their geometric definitions; for "
             "positions with well-formed views SquareAttackedBy is exactly the set of attacking pieces and IsInCheck is exact. Tied to "
             "the code EXHAUSTIVELY for tables and masks, by random occupancies beyond, and on sampled positions for attackers.",
        note="attackers/in-check for positions satisfying the view clauses of the C10 invariant; generated tables/magics re-checked by the kernel whenever they change",
        technique="Coq proof (bit-level lemmas, induction along rays, kernel-evaluated perfect-hash check on generated magics) + exhaustive correspondence check",
        ref="DESIGN.md section 6, C12"),
    "C14": dict(
        text="Coq theorems over the Gallina transliteration of Get/PotentiallySave/Reset (bucket scan, replacement rule, packed "
             "age/bound byte, int16 mate adjustment) for ALL operation sequences from the empty table (induction with a ghost log of "
             "saves): a usable probe is justified by an earlier save of that hash with at least the requested depth and consistent with "
             "its bound; never stored yields nothing; the probe after a store finds an entry for the hash (strongest true form; the naive "
             "form is refuted with a witness). Tied to the real global table by differential runs of random operation sequences with forced "
             "bucket collisions; a log-based oracle in the harness judges the property on the implementation alone.",
        note="non-zero hashes; exact-score clause for scores outside the mate range (inside it the ply-adjusted score, as stated in the theorem)",
        technique="Coq proof (invariant over operation histories with ghost log) + differential correspondence check",
        ref="DESIGN.md section 6, C14"),
    "C16": dict(
        text="Coq theorems over the Gallina transliteration of evalWithCache / the direct-mapped cache, for ALL evaluation sequences: "
             "the uncached evaluation depends only on the bitboards, occupancy sets, side and the bit 'half-move clock >= 100' (never on "
             "rights, en-passant square, hash, ply); from any sound cache - in particular the empty one - under the no-collision "
             "hypothesis every hashed cache needs (hash -> evaluation key injective on the universe of positions evaluated, non-zero "
             "hashes) every cached result equals the uncached one (error classes included) and the cache stays sound; clock twins across "
             "the 100 boundary never leak in either order (no injectivity hypothesis needed); the unrepaired function is refuted with the "
             "D9 witness in both directions. What the key table decides about the hypothesis IS proved and re-checked whenever the generated "
             "keys change: all 781 Zobrist keys are non-zero and pairwise distinct, so no two positions differing in exactly one component "
             "share a hash. Tied to Evaluation() by differential runs of evaluation sequences with clock/rights/en-passant/side/one-square "
             "twins, revisits, same-slot pairs and twins aimed at any zero or repeated key of the build's table; oracle: cached vs uncached on the implementation.",
        note="hash injectivity on the evaluated universe and non-zero hashes are explicit hypotheses (false in general for any 64-bit hash; measured in the runs)",
        technique="Coq proof (cache soundness invariant over histories) + differential correspondence check",
        ref="DESIGN.md section 6, C16"),
    "C17": dict(
        text="Coq theorem over the Gallina transliteration of both generators: for every position satisfying the C10 invariant the "
             "capture generator's list EQUALS (same order, hence same multiset) the filter of the full generator's list by 'captures "
             "something' (target occupied or en passant) - pushes incl. push promotions and castling are shown to land on empty squares, "
             "capture promotions are kept as blocks of four, the en-passant block is identical. Tied to GeneratePseudoLegalMoves / "
             "GeneratePseudoLegalCaptures by differential runs on sampled positions (lists compared in order); the oracle compares Go's "
             "two lists with each other.",
        note="positions satisfying Inv (C10)",
        technique="Coq proof (list equality via bits/filter lemmas) + differential correspondence check",
        ref="DESIGN.md section 6, C17"),
    "C18": dict(
        text="Coq theorem C18_see_sign, without residual premise: for every position satisfying the C10 invariant with at most 32 men "
             "and every legal non-en-passant capture, the sign of StaticExchangeEvaluation equals the sign of the reference the "
             "property describes (Eval/SeeRef.v: attackers recomputed geometrically on the current mailbox after every capture so that "
             "pieces behind join in, least valuable attacker first, either side may stop, no legality, engine piece values, king 0). "
             "Ingredients proved: the pruned swap list and the full one have the same sign for ANY value sequence; the full swap fold "
             "is the minimax; after a king capture the tail cannot change the value; the incrementally maintained attacker set equals "
             "the from-scratch geometric attackers except behind a king (uses C12's slider exactness); at most 31 capturers so gain[32] "
             "suffices and SEE never panics. Tied to the code by the SEE value of every legal capture on sampled positions against the "
             "extracted model, and Go's sign against the extracted reference (a difference is a failing input) and against an independent "
             "Go reference.",
        note="at most 32 men on the board (material premise, explicit); non-en-passant captures; piece values 0..1000 (checked for the generated constants)",
        technique="Coq proof (list-level swap/minimax lemmas + incremental-attacker invariant on top of C12) + differential correspondence check + extracted reference as oracle",
        ref="DESIGN.md section 6, C18"),
    "C19": dict(
        text="Coq theorems over the Gallina transliteration of scoreMoves and MoveList.SortIndex, for ARBITRARY heuristic state "
             "(PV move, table move, killers, arbitrary history and counter functions): scoring changes only bits 16..31 of every "
             "move; the SortIndex sweep visits a permutation of the list in non-increasing score order, every partial sweep is a "
             "prefix of it; composed: for positions satisfying the C10 invariant the visited moves (low 16 bits) are a permutation "
             "of exactly the generated moves. Ordering never panics when no generated move targets a king (explicit premise, shown "
             "necessary; follows from Inv + C12). Tied to VerifScoreMoves + SortIndex by differential runs over random heuristic states.",
        note="move lists up to 255 entries (Go array bound; longest observed 138); no-king-target premise for totality",
        technique="Coq proof (permutation/sortedness of selection sweep, bit-field preservation) + differential correspondence check",
        ref="DESIGN.md section 6, C19"),
}


def main():
    props = [json.loads(l) for l in open(os.path.join(V, "properties.jsonl"))]
    hooks = subprocess.run(["git", "-C", "/repo", "log", "--format=%h %s"], capture_output=True, text=True).stdout.splitlines()
    hook_commits = [l.split()[0] for l in hooks if l.split(" ", 1)[1].startswith("verif hooks")]
    checks = []
    for pid in sorted(CLAIMED):
        c = CLAIMED[pid]
        checks.append({
            "property_id": pid,
            "quick_cmd": "./tools/check %s --tier quick" % pid,
            "thorough_cmd": "./tools/check %s --tier thorough" % pid,
            "evidence_file": "/verif/evidence/%s.json" % pid,
            "replay_cmd_template": "./tools/check %s --replay {path}" % pid,
            "engine": "coq-model+correspondence",
            "level_claimed": {"category": c.get("category", "proof"), "text": c["text"], "design_ref": c["ref"]},
            "level_note": COMMON_NOTE + c["note"],
            "technique": c["technique"],
        })
    na = json.load(open(os.path.join(V, "tools", "not_applicable.json"))) if os.path.exists(os.path.join(V, "tools", "not_applicable.json")) else {}
    m = {
        "version": 1,
        "setup_cmd": "./tools/setup",
        "hooks": {"guard": "verif",
                  "enable": "go build -tags verif (add-only files *verif_hooks.go with //go:build verif; harness built with -tags verif)",
                  "baseline_off_cmd": "cd /repo && GOFLAGS=-mod=mod GOPROXY=off GOSUMDB=off go test -vet=off -count=1 ./...",
                  "source_commits": hook_commits, "add_only": True},
        "engines": [{"name": "coq-model+correspondence",
                     "path": "/verif/coq, /verif/harness, /verif/ocaml, /verif/tools",
                     "serves_properties": sorted(CLAIMED),
                     "kind_free_text": "hand-written Gallina model with constants generated from the Go build, theorems in Coq 8.16.1, "
                                       "model extracted to OCaml and run against the Go implementation on the same inputs; independent "
                                       "oracles evaluate the property on the implementation when a proof or the correspondence breaks"}],
        "checks": checks,
        "notes": "See DESIGN.md. known-findings.txt lists repaired defects (fixed:) and any recorded finding.",
        "not_applicable": [{"property_id": p["id"],
                            "reason": na.get(p["id"], "check under construction in this session; not claimed until its model, theorems "
                                                      "and correspondence run (see DESIGN.md section 10)")}
                           for p in props if p["id"] not in CLAIMED],
    }
    json.dump(m, open(os.path.join(V, "MANIFEST.json"), "w"), indent=1)
    print("claimed:", sorted(CLAIMED))


if __name__ == "__main__":
    main()
