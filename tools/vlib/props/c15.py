"""C15: static evaluation is colour-symmetric and never looks like a mate score."""


def _stat(case, obs):
    ks = []
    fen = case.split(" ;; ")[0].split()
    if fen:
        men = sum(1 for ch in fen[0] if ch.isalpha())
        ks.append("men<=5" if men <= 5 else ("men<=16" if men <= 16 else "men>16"))
        q = sum(1 for ch in fen[0] if ch in "Qq")
        if q >= 3:
            ks.append("three or more queens")
        if len(fen) > 1 and fen[1] == "b":
            ks.append("black to move")
    try:
        sc = int(obs.split()[0])
        ks.append("|score|<100" if abs(sc) < 100 else ("|score|<1000" if abs(sc) < 1000 else "|score|>=1000"))
        if sc == 0:
            ks.append("score 0")
    except (ValueError, IndexError):
        ks.append("no score")
    return ks


def _nontrivial(case, obs):
    try:
        return int(obs.split()[0]) != 0
    except (ValueError, IndexError):
        return False


SPEC = {
    "ties": [{
        "name": "evaluation-and-mirror", "group": "heval", "key": "EVAL", "tags": ["C15"],
        "n_quick": 24000, "n_thorough": 1500000, "min_per_shard": 1500,
        "stat": _stat, "nontrivial": _nontrivial,
    }],
    "rule": "positions from seeded random and biased playouts from the start position and curated FENs, plus synthetic "
            "extreme-material positions (promotion-heavy, bare kings); each is paired with its colour-flipped FEN built by the "
            "harness (independently of the model); compared with the extracted model: uncached score and the three accumulators "
            "(mid-game, end-game, base) of the position AND of its mirror image, and the model's own mirror function (the one the "
            "theorems are about) must print as the harness's mirrored FEN; oracle (implementation only): score(p) = score(mirror p) "
            "and |score| outside the mate range, for positions that satisfy the C10 invariant and the material accounting of legal "
            "chess; non-trivial = non-zero score; distinct = distinct FENs",
    "assumptions": ["positions satisfying the C10 invariant; for the bound additionally the material accounting of legal chess "
                    "(at most 8 pawns and 16 men per side, promoted pieces paid for by missing pawns)"],
}
