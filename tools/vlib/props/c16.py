"""C16: the evaluation cache is transparent (Evaluation vs VerifEvalUncached vs the model over evaluation histories)."""


def _fens(case):
    return [f.strip() for f in case.split(" ;; ") if f.strip()]


def _split(fen):
    """(first four FEN fields, half-move clock or None)."""
    f = fen.split()
    if len(f) < 5:
        return None, None
    try:
        return " ".join(f[:4]), int(f[4])
    except ValueError:
        return " ".join(f[:4]), None


def _features(case):
    fens = _fens(case)
    revisit = len(set(fens)) < len(fens)
    clocks = {}                       # first four fields -> set of clocks seen
    placements = {}                   # placement + side -> set of (castling, ep)
    for fen in fens:
        key, hmc = _split(fen)
        if key is None or hmc is None:
            continue
        clocks.setdefault(key, set()).add(hmc)
        f = fen.split()
        placements.setdefault(f[0] + " " + f[1], set()).add((f[2], f[3]))
    clock_twin = any(min(s) < 100 <= max(s) for s in clocks.values())
    any_clock_twin = any(len(s) > 1 for s in clocks.values())
    rights_ep_twin = any(len(s) > 1 for s in placements.values())
    drawn = any(h >= 100 for s in clocks.values() for h in s)
    return fens, revisit, clock_twin, any_clock_twin, rights_ep_twin, drawn


def _nontrivial(case, obs):
    """The history revisits a position (same FEN twice) and contains a clock-twin pair across the
    fifty-move limit (same first four FEN fields, one clock < 100, one >= 100)."""
    _, revisit, clock_twin, _, _, _ = _features(case)
    return revisit and clock_twin


def _stat(case, obs):
    fens, revisit, clock_twin, any_clock_twin, rights_ep_twin, drawn = _features(case)
    n = len(fens)
    ks = ["length<=3" if n <= 3 else ("length 4..50" if n <= 50 else ("length 51..120" if n <= 120 else "length>120"))]
    ks.append("has clock>=100" if drawn else "no clock>=100")
    if revisit:
        ks.append("has revisit")
    if clock_twin:
        ks.append("twins: clock across 100")
    elif any_clock_twin:
        ks.append("twins: clock, same side of 100 only")
    if rights_ep_twin:
        ks.append("twins: castling rights / en passant")
    if not (clock_twin or any_clock_twin or rights_ep_twin):
        ks.append("no twins")
    scores = obs.split()
    if any(s in ("panic", "err", "badfen") for s in scores):
        ks.append("has panic/err/badfen result")
    return ks


SPEC = {
    "ties": [{
        "name": "eval-sequences", "group": "heval", "key": "CACHE", "tags": ["C16"],
        "n_quick": 400, "n_thorough": 20000, "min_per_shard": 25,
        "nontrivial": _nontrivial, "stat": _stat,
    }],
    "rule": "regression corpus (the D9 witnesses in both orders, 99/100/99, castling-rights twins, en-passant twins) + "
            "seeded random evaluation histories of 20..170 positions drawn from 1..3 playouts (positions satisfying the "
            "naive invariant and material_ok): families of twins differing only in half-move clock (0, 99, 100, 101, 255, "
            "random), castling rights or en-passant state, shuffled; immediate revisits; same-slot pairs of the pool "
            "interleaved. Each history is evaluated in order through the real cache (Evaluation) after VerifCacheClear. "
            "Observable: the scores in order, compared with the extracted eval_cached run from the empty cache. Oracle "
            "(the property on the implementation): every cached score equals VerifEvalUncached of the same position. "
            "Non-trivial = the history contains at least one revisit (same FEN twice) and at least one clock-twin pair "
            "across the limit (same first four FEN fields, clocks < 100 and >= 100); distinct = distinct case lines",
    "assumptions": ["hash -> (placement, side) injective on the positions of a history (the no-collision hypothesis any "
                    "hashed cache needs; a collision inside a generated history would show as an oracle failure)",
                    "no position with Zobrist hash 0 (the table is zero-initialised: hash 0 hits an empty slot with score 0)",
                    "positions satisfying the naive invariant and material_ok are judged by the oracle; all are compared with the model"],
}
