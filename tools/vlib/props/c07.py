"""C07: UCI command lines are parsed totally and faithfully (parseGo, prepareInput, handleInput)."""
from ._session import session_tie, SESSION_RULE

_KW = ("wtime", "btime", "winc", "binc", "movestogo", "movetime", "depth", "nodes", "mate")


def _go_nontrivial(case, obs):
    return len(case.split()) > 1          # something follows `go`


def _go_stat(case, obs):
    toks = case.split()[1:]
    ks = []
    if not toks:
        ks.append("empty")
    if obs == "panic":
        ks.append("impl:panic")
    elif "\t" in obs:
        if " broken, " in obs:
            ks.append("impl:value-broken")
        if " missing" in obs:
            ks.append("impl:value-missing")
        if "unknown go command" in obs:
            ks.append("impl:unknown-token")
        if "not implemented" in obs:
            ks.append("impl:not-implemented-ack")
        if "<non-simple>" in obs:
            ks.append("impl:quoted-token-compared-by-kind")
    else:
        ks.append("impl:silent")
    if "infinite" in toks:
        i = toks.index("infinite")
        ks.append("infinite:" + ("only" if len(toks) == 1 else "first" if i == 0 else
                                 "last" if i == len(toks) - 1 else "middle"))
    n = sum(1 for t in toks if t in _KW)
    ks.append("keywords:%s" % (n if n < 4 else "4+"))
    if len(set(t for t in toks if t in _KW)) < n:
        ks.append("duplicate-keyword")
    if "infinite=1" in obs:
        ks.append("result:infinite")
    return ks


def _disp_nontrivial(case, obs):
    return case[1:].replace("\\x09", " ").replace("\\x0a", " ").replace("\\x0b", " ") \
        .replace("\\x0c", " ").replace("\\x0d", " ").strip() != ""


def _disp_stat(case, obs):
    ks = ["to:" + obs.split(" ")[0]]
    first = case[1:].split(" ")[0] if case[1:] else ""
    if obs != "none" and first != obs.split(" ")[0]:
        ks.append("prefix-skipped")
    if "\\x" in case:
        ks.append("non-printable-or-non-ascii-bytes")
    return ks


def _proc_stat(case, obs):
    return ["impl:" + obs]


SPEC = {
    "ties": [
        {
            "name": "parseGo", "group": "huci", "key": "C07",
            "n_quick": 60000, "n_thorough": 3000000, "min_per_shard": 10000,
            "nontrivial": _go_nontrivial, "stat": _go_stat,
        },
        {
            "name": "dispatch", "group": "huci", "key": "C07D",
            "n_quick": 40000, "n_thorough": 2000000, "min_per_shard": 10000,
            "nontrivial": _disp_nontrivial, "stat": _disp_stat,
        },
        {
            # the real engine process; tested, not proved (no model side)
            "name": "process-liveness", "group": "huci", "key": "C07P", "model": False,
            "n_quick": 26, "n_thorough": 400, "min_per_shard": 1000000, "max_shards": 1,
            "search_factor": 2, "stat": _proc_stat, "timeout": 1500,
        },
        session_tie(["C07"]),
    ],
    "rule": "parseGo: regression corpus (D3 witnesses) + every keyword with every listed boundary / signed / "
            "overflowing / non-numeric value and with the value missing + every subset of the ten parameters "
            "(listed order and shuffled) + every order of every 1, 2, 3 of them + duplicates, garbage, searchmoves, "
            "infinite first/middle/last + seeded random lines; VerifParseGo (all eight fields and every printed "
            "line) against the extracted parse_go; non-trivial = at least one token after `go`. "
            "dispatch: raw lines (ASCII white space of all six kinds, unknown prefixes, unknown commands, every "
            "valid first token, non-ASCII and invalid UTF-8 bytes) through the real handleInput with a recording "
            "game against the extracted handle_line; non-trivial = the line is not blank. "
            "process-liveness: hostile scripts against the real engine binary, then isready -> readyok, quit -> exit 0. "
            "distinct = distinct case lines." + SESSION_RULE,
    "assumptions": [
        "strings.Fields is trusted; the model splits at ASCII white space only and the dispatch generator never "
        "writes a UTF-8 encoded non-ASCII space",
        "strconv.Quote is modelled for printable-ASCII tokens without double quote and backslash; for other tokens "
        "the printed line is compared up to the quoted token (marked <non-simple> on both sides)",
        "exact values are claimed for depth 0..255 and every other value in int64; Go int is 64 bit",
        "input lines of at most 64 KiB (bufio.Scanner); garbage inside `position`, illegal moves and illegal "
        "positions are outside the property",
        "process survival after hostile lines is tested (C07P), not proved: the theorems are about the handlers",
    ],
}
