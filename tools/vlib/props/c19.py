"""C19: move ordering only reorders (scoreMoves + the SortIndex sweep)."""


def _parse(obs):
    """'S:<m,m,...> V:<m,m,...>' -> (scored, visited) as lists of ints (32-bit move words); None if
    the observable is a class word (panic / badfen)."""
    if not obs.startswith("S:") or " V:" not in obs:
        return None
    s, v = obs[2:].split(" V:", 1)

    def lst(x):
        return [int(t) for t in x.split(",") if t.strip().isdigit()]
    return lst(s), lst(v)


def _scores(ms):
    return [(m >> 16) & 0xffff for m in ms]


def _nontrivial(case, obs):
    # the sort has something to do (>= 2 distinct scores) and at least one of the remembered moves
    # (PV 1000, table move 900, killers 100 / 99) actually matched a move of the list
    pv = _parse(obs)
    if pv is None:
        return False
    sc = set(_scores(pv[0]))
    return len(sc) >= 2 and bool(sc & {1000, 900, 100, 99})


def _stat(case, obs):
    ks = []
    pv = _parse(obs)
    if pv is None:
        return ["observable=" + obs.split()[0][:12]]
    scored, visited = pv
    n = len(scored)
    ks.append("len=0" if n == 0 else "len=1..9" if n < 10 else "len=10..29" if n < 30
              else "len=30..49" if n < 50 else "len=50..99" if n < 100 else "len>=100")
    parts = case.split(" | ")
    f = parts[1].split() if len(parts) > 1 else []
    ks.append("list=captures-only" if f and f[0] == "1" else "list=full")
    sc = _scores(scored)
    ss = set(sc)
    for v, name in ((1000, "pv 1000"), (900, "tt 900"), (100, "killer0 100"), (99, "killer1 99"), (500, "push promotion 500")):
        if v in ss:
            ks.append("score:" + name)
    if any(605 <= x <= 650 for x in ss):
        ks.append("score:capture 605..650")
    if any(0 < x < 99 for x in ss):
        ks.append("score:history/counter 1..98")
    if any(x > 1000 for x in ss):
        ks.append("score:history >1000 (uint16 range)")
    if len(ss) >= 2:
        ks.append("distinct scores>=2")
    if scored != visited:
        ks.append("sweep reorders")
    if len(sc) != len(ss):
        ks.append("ties among scores")
    if len(f) > 5 and any(int(x) >> 16 for x in f[2:6] if x.isdigit()):
        ks.append("remembered move carries score bits")
    return ks


SPEC = {
    "ties": [{
        "name": "score-and-sort", "group": "hsearch", "key": "ORDER", "tags": ["C19"],
        "n_quick": 30000, "n_thorough": 1000000, "min_per_shard": 2000,
        "nontrivial": _nontrivial, "stat": _stat,
    }],
    "rule": "positions sampled from seeded random and biased playouts (5..104 plies) from the start position, "
            "Kiwipete and the curated FEN set; per position: full or captures-only list (1 in 4), PV / table move / two "
            "killers each either a move of the list (1 in 4 of them with score bits set, as remembered moves carry "
            "them) or 0, up to 11 history entries (values 0..98, 1 in 6 of them 65530..65535 so that the counter "
            "bonus wraps) and up to 3 counter-move entries on (source, target) pairs of list moves. Observable: the "
            "list after VerifScoreMoves and the sequence visited by `for i: SortIndex(i); Get(i)`, as 32-bit move "
            "words, compared with score_moves / visit_order of the extracted model. Oracle (Go only): the low 16 "
            "bits of the visited moves are the multiset of the generated moves, scores along the visit never "
            "increase, no panic on a position satisfying the invariant. Non-trivial = at least 2 distinct scores "
            "and at least one of PV / table / killer scores (1000 / 900 / 100 / 99) present; distinct = distinct "
            "case lines",
    "assumptions": [
        "positions satisfying the C10 invariant (Inv); the oracle judges a panic only on those",
        "no generated move has a king on its target square (named hypothesis no_king_target of C19_ordering_total: "
        "follows from Inv's not-in-check clause and attack exactness, C12); every case of the tie checks it "
        "empirically (a violation would be a Go panic in MVV_LVA_SCORES[5])",
        "move lists of at most 255 entries (MoveList is a [255]Move indexed by uint8; the model's lists are unbounded); "
        "the length distribution of the run is reported",
    ],
}
