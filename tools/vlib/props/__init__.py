"""Per-property configuration of the checks: one module cXX.py per property defining SPEC
(which ties run, how many cases, what counts as non-trivial, what is trusted).
The theorems are read from coq/theories/Props/Cxx.v."""
import importlib
import os
import re

PROPS = {}
for _f in sorted(os.listdir(os.path.dirname(__file__))):
    _m = re.match(r"^(c\d+)\.py$", _f)
    if _m:
        PROPS[_m.group(1).upper()] = importlib.import_module("." + _m.group(1), __name__).SPEC
