"""C03: the UCI position command reconstructs the game state exactly."""
from ._session import session_tie, SESSION_RULE


def _stat(case, obs):
    toks = case.split()
    n = len(toks) - toks.index("moves") - 1 if "moves" in toks else 0
    ks = ["start:" + (toks[0] if toks else "empty")]
    ks.append("moves=0" if n == 0 else ("moves<=40" if n <= 40 else ("moves<=255" if n <= 255 else "moves>255")))
    ks.append("impl:" + obs.split(" ")[0][:8])
    return ks


def _nontrivial(case, obs):
    return "moves" in case.split() and len(case.split()) > case.split().index("moves") + 1


SPEC = {
    "ties": [{
        "name": "position-command-vs-model", "group": "hpos", "key": "NEWPOS",
        "n_quick": 1500, "n_thorough": 60000, "min_per_shard": 90, "nontrivial": _nontrivial, "stat": _stat,
    }, {
        "name": "games-vs-fide-spec", "group": "hpos", "key": "GAMESPEC", "spec": "C03",
        "n_quick": 1500, "n_thorough": 60000, "min_per_shard": 90, "nontrivial": _nontrivial, "stat": _stat,
    }, {
        "name": "printed-moves-parse-back", "group": "hpos", "key": "MOVES", "tags": ["C03"],
        "n_quick": 3000, "n_thorough": 200000, "min_per_shard": 180,
    }, session_tie(["C03"], n_quick=32)],
    "rule": "`position startpos|fen F moves m1..mn` commands built from seeded random and biased legal playouts (up to 600 plies, "
            "ended by the 75-move rule) from the start position and curated FENs, plus malformed commands (missing fields, bad move "
            "text); tie 1 compares the position the game object will search (whole struct) and its repetition history with the model "
            "of NewPosition; tie 2 replays the same UCI moves on the extracted FIDE specification and compares the final FEN (full-move "
            "number modulo the 8-bit ply counter) - a difference IS a failing input; tie 3: every legal move's printed text is fed back "
            "through MakeMoveFromString and must give the same successor; non-trivial = at least one move; distinct = distinct commands." + SESSION_RULE,
    "assumptions": ["moves form a legal game; half-move clock below 256; full-move number compared modulo 128 beyond 255 plies"],
}
