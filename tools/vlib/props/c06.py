"""C06: the UCI dialogue stays live under every interleaving of commands and search."""


def _canon(obs):
    # the released points ("steps=...") are for the replay, not part of the comparison
    return obs.split(" steps=")[0]


def _stat(case, obs):
    d = case.split("|")[0].strip()
    ks = ["lines=%d" % len(d), "searches=%d" % sum(1 for c in d if c in "FI")]
    if "I" in d:
        ks.append("infinite search")
    if "random:" in case:
        ks.append("random schedule")
    else:
        ks.append("schedule length<=%d" % (10 * ((len(case.split("|")[1].strip()) + 9) // 10)))
    return ks


def _nontrivial(case, obs):
    return any(c in case.split("|")[0] for c in "FI")


SPEC = {
    "ties": [{
        "name": "forced-schedules-vs-model", "group": "huci", "key": "C06", "model_gen": "C06GEN",
        "n_quick": 8000, "n_thorough": 120000, "min_per_shard": 100, "timeout": 3000,
        "canon": _canon, "stat": _stat, "nontrivial": _nontrivial,
    }, {
        "name": "random-schedules", "group": "huci", "key": "C06", "model": False,
        "n_quick": 3200, "n_thorough": 60000, "min_per_shard": 50, "timeout": 3000,
        "stat": _stat, "nontrivial": _nontrivial, "search_factor": 2,
    }, {
        "name": "process-back-to-back", "group": "huci", "key": "C06P", "model": False,
        "n_quick": 40, "n_thorough": 800, "max_shards": 4, "min_per_shard": 6, "timeout": 3000, "search_factor": 1,
    }],
    "rule": "tie 1: schedules are produced by the extracted model itself (Uci/Conc.v, repaired variant): EVERY maximal execution "
            "of twelve short dialogues (position/go depth 1/go infinite/stop/isready) in shard 0, random maximal executions of random "
            "well-formed dialogues elsewhere; each is forced step by step on the real handleInput / StartSearch / search goroutine "
            "through the scheduling points (one step = the code between two points) and the output events, state flag, unconsumed "
            "lines, live search goroutines and lock are compared with the model's prediction; tie 2: random schedules chosen by "
            "the harness without the model (works whatever the statement order of the code is), judged by the oracle only; oracle = "
            "the property on the complete execution: no position/go refused, every consumed go answered by exactly one bestmove when "
            "nothing can move any more, every isready answered, mutex free, every output line whole; tie 3 (tested, not proved): the real engine process with the lines of a round written in ONE write (stop directly behind go), every round answered by exactly one bestmove within 3 s, a failure counts only if it repeats in three attempts; non-trivial = contains a go; "
            "distinct = distinct (dialogue, schedule)",
    "assumptions": ["the GUI sends position/go only after the previous bestmove; every go infinite is followed by a stop",
                    "the search is abstract in the model (returns by itself iff finite, or once cancelled: C05)",
                    "wall-clock promptness and one-write-per-line atomicity are tested, not proved"],
}
