"""C08: calculateTime."""


def _c08_nontrivial(case, obs):
    f = case.split()
    black = f[0] == "1"
    t = int(f[3] if black else f[2])
    return t > 0 or int(f[7]) > 0


def _c08_stat(case, obs):
    f = case.split()
    black = f[0] == "1"
    t = int(f[3] if black else f[2])
    inc = int(f[5] if black else f[4])
    ks = ["black" if black else "white"]
    ks.append("movetime>0" if int(f[7]) > 0 else "movetime=0")
    ks.append("clock=0" if t == 0 else ("clock<inc" if t < inc else "clock>=inc"))
    ks.append("budget<0" if int(obs) < 0 else "budget>=0")
    return ks


SPEC = {
        "ties": [{
            "name": "calculateTime", "group": "hsearch", "key": "C08",
            "n_quick": 200000, "n_thorough": 5000000, "min_per_shard": 20000,
            "nontrivial": _c08_nontrivial, "stat": _c08_stat,
        }, {
            # the budget actually installed as the context deadline and announced to the GUI
            "name": "installed-deadline", "group": "hsearch", "key": "C08B",
            "n_quick": 6000, "n_thorough": 300000, "min_per_shard": 400,
            "nontrivial": _c08_nontrivial, "stat": _c08_stat,
        }],
        "rule": "regression corpus + grid over boundary clocks/increments/movetime/plies + seeded random points "
                "(both colours, plies 0..699, values up to 2^40 ms, one pick in five up to 2^61 so that the int64 wraps of the sum and the product are exercised); a case is non-trivial when the mover's clock "
                "or movetime is positive (a premise of the property applies); distinct = distinct input tuples",
        "assumptions": ["Go int is 64 bit; the bounds are proved for every int64 input (C08_budget_margin_any_i64), the wrap-free formula for inputs below 2^40 ms"],
    }
