"""C09: the hash is a function of the position, not of the path."""


def _game_stat(case, obs):
    ops = case.split()[1:]
    ks = ["start:" + ("startpos" if case.startswith("startpos") else "fen")]
    n = len(ops)
    ks.append("ops<=20" if n <= 20 else ("ops<=80" if n <= 80 else "ops>80"))
    if "null" in ops:
        ks.append("has null move")
    if any(len(o) == 5 for o in ops):
        ks.append("has promotion")
    if any(o in ("e1g1", "e1c1", "e8g8", "e8c8") for o in ops):
        ks.append("has king two-file move")
    return ks


def _game_nontrivial(case, obs):
    return len(case.split()) > 2


def _model_case(c):
    f = c.split(" ")
    return f[1] if len(f) > 1 else ""


SPEC = {
    "ties": [{
        "name": "histories", "group": "hpos", "key": "GAME", "tags": ["C09"],
        "n_quick": 4000, "n_thorough": 200000, "min_per_shard": 250,
        "nontrivial": _game_nontrivial, "stat": _game_stat,
    }, {
        "name": "fen-load", "group": "hpos", "key": "FEN", "tags": ["C09"], "model_case": _model_case,
        "n_quick": 10000, "n_thorough": 500000, "min_per_shard": 1000,
    }],
    "rule": "operation histories: regression corpus (D1 witnesses, transpositions, null-move round trips) + seeded random and "
            "biased playouts (castling, en passant, promotions, rook-home captures preferred) from the start position and the "
            "curated FENs, with null/unnull pairs inserted when not in check and trailing null moves continued by moves; the whole "
            "struct incl. the hash is compared with the model after EVERY operation; the oracle compares, on the implementation "
            "alone, the incremental hash with a from-scratch hash computed by the harness from the dumped key tables (held rights "
            "only) and with the hash of the same position re-loaded from its FEN; second tie: hashes of positions loaded from FEN "
            "strings; non-trivial = at least two operations; distinct = distinct histories",
    "assumptions": ["distinctness is proved for positions differing in exactly one component (generated keys); general pairwise "
                    "distinctness is false for any 64-bit hash and is not claimed",
                    "C09_reachable_hash_ok / C09_path_independent carry 'legal moves preserve the C10 invariant' as an explicit premise "
                    "(inv_step_statement), discharged by C10's theorem where that is proved"],
}
