"""C13: a mate in one is always played."""
from .c04 import search_stat, search_nontrivial, judge_mate

SPEC = {
    "ties": [{
        "name": "mate-in-one-searches", "group": "hsearch", "key": "MATE1", "tags": ["C13"],
        "n_quick": 224, "n_thorough": 12000, "min_per_shard": 14, "timeout": 6000,
        "nontrivial": search_nontrivial, "stat": search_stat, "judge": judge_mate,
    }],
    "rule": "positions with at least one mating move, found by filtering seeded random and biased playouts with the engine's own "
            "generator (the mating moves are recomputed by the oracle), plus a curated set; each is searched at depth 1-3 with "
            "cancellation never / at poll 0 / at a random poll, cold tables or tables warmed by an earlier search of another position "
            "of the same game; observables compared with the extracted search model; a second, specification-based judge reads the mating "
            "moves of the root from the extracted FIDE specification (not from the engine's generator) and demands that the answer is one of them; "
            "the oracle demands that the answer is one of the "
            "mating moves; distinct = distinct cases",
    "assumptions": ["root positions satisfy the C10 invariant"],
}
