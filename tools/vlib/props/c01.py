"""C01: legal move generation matches the rules of chess exactly."""


def _stat(case, obs):
    ks = []
    if obs.startswith("n="):
        n = int(obs.split(" ")[0][2:])
        ks.append("legal=0" if n == 0 else ("legal<=10" if n <= 10 else ("legal<=40" if n <= 40 else "legal>40")))
        if "check=true" in obs:
            ks.append("in check")
        mv = obs.split("moves: ")[1] if "moves: " in obs else ""
        if any(len(x.split("=")[0]) == 5 for x in mv.split("; ") if x):
            ks.append("promotion available")
        if any(x.split("=")[0] in ("e1g1", "e1c1", "e8g8", "e8c8") for x in mv.split("; ") if x):
            ks.append("king two-file move available")
    f = case.split()
    if len(f) > 3 and f[3] != "-":
        ks.append("ep target set")
    return ks


def _perft_stat(case, obs):
    return ["depth=" + case.split()[0]]


SPEC = {
    "ties": [{
        "name": "legal-moves-vs-fide-spec", "group": "hpos", "key": "SPEC", "spec": "C01",
        "n_quick": 6000, "n_thorough": 400000, "min_per_shard": 350, "stat": _stat,
    }, {
        "name": "perft-vs-fide-spec", "group": "hpos", "key": "PERFT", "spec": "C01", "tags": ["C01"],
        "n_quick": 2500, "n_thorough": 60000, "max_shards": 1, "min_per_shard": 1, "stat": _perft_stat, "timeout": 6000,
    }, {
        "name": "generators-vs-model", "group": "hpos", "key": "MOVES", "tags": ["C01"],
        "n_quick": 3000, "n_thorough": 200000, "min_per_shard": 180,
    }],
    "rule": "positions: curated FENs (published perft suite, castling / en-passant incl. pinned en-passant / promotion edge cases, "
            "sparse and queen-heavy material) + positions sampled from seeded random and biased playouts (positions with special moves "
            "available, an en-passant target or a check are kept preferentially). Tie 1 compares the engine's legal move set (UCI text) "
            "and every successor FEN with the extracted FIDE specification (Rules/Fide.v) - a difference IS a failing input; tie 2 "
            "compares perft counts with the specification's perft and with the published tables (start d<=4, Kiwipete d<=3, positions 3-6); "
            "tie 3 compares both generators, legal filter, check flags and attackers with the engine model; distinct = distinct FENs",
    "assumptions": ["positions satisfying the C10 invariant; the FIDE specification is itself validated against the published perft tables on every run"],
}
