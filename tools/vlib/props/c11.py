"""C11: FEN round trip and parser totality."""


def _model_case(c):
    f = c.split(" ")
    return f[1] if len(f) > 1 else ""


def _stat(case, obs):
    ks = ["stream:" + {"C": "printed-canonical", "M": "structured-mutant", "R": "raw-bytes"}.get(case[:1], "?")]
    ks.append("impl:" + obs.split(" ")[0])
    return ks


def _nontrivial(case, obs):
    # accepted strings (round trip applies) and rejected mutants both count; empty strings do not
    return len(case.split(" ")) > 1 and len(case.split(" ")[1]) > 0


SPEC = {
    "ties": [{
        "name": "fen-strings", "group": "hpos", "key": "FEN", "tags": ["C11", "C09"], "model_case": _model_case,
        "n_quick": 40000, "n_thorough": 3000000, "min_per_shard": 2500,
        "nontrivial": _nontrivial, "stat": _stat,
    }],
    "rule": "regression corpus (D2 witnesses, malformed counters, non-ASCII digits, invalid UTF-8, empty fields) + FENs printed "
            "from positions of seeded random/biased playouts with counters varied over their whole range (stream C), structured "
            "mutants of those (replace/delete/insert/duplicate/digit overflow/non-ASCII runes/truncate; stream M) and raw byte "
            "strings (stream R); observable: ok + every field of the parsed struct + the re-printed FEN, or err, or panic; the "
            "oracle demands: no panic ever; for parsed positions satisfying the C10 invariant parse(print(p)) = p in every field; "
            "printed canonical FENs re-print identically; non-trivial = non-empty string; distinct = distinct strings",
    "assumptions": ["round trip for positions satisfying Inv, hash = scratch hash, ply parity = side (all established for parser "
                    "output: C11_parsed_meets_hyps); totality for every byte string; full-move number <= 128, half-move clock <= 255"],
}
