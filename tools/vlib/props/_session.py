"""The SESSION tie (whole UCI sessions through the real handleInput vs the sequential engine model
Uci/Engine.v); shared by C03, C04, C07."""


def session_stat(case, obs):
    ks = []
    items = case.split(" ;; ")
    n = len(items)
    ks.append("lines<=3" if n <= 3 else ("lines 4..8" if n <= 8 else "lines>8"))
    gos = [i for i in items if " go" in " " + i.split("|", 1)[1].replace("\t", " ")]
    ks.append("go lines=%d" % len(gos) if len(gos) < 4 else "go lines>=4")
    if any(i.startswith("0|") for i in items):
        ks.append("has expired-deadline go")
    if "bestmove a1a1" in obs:
        ks.append("answer:null-move")
    if "no position is set" in obs:
        ks.append("refused go")
    if "error while making move" in obs:
        ks.append("move error")
    if "broken fen" in obs or "fen string to short" in obs:
        ks.append("fen error")
    if "too small for value" in obs:
        ks.append("aspiration re-search")
    if "info string" in obs and (" broken, " in obs or " missing" in obs or "not implemented" in obs or "unknown go command" in obs):
        ks.append("go parameter message")
    ks.append("end:" + obs.rsplit("end=", 1)[-1])
    return ks


def session_nontrivial(case, obs):
    return "bestmove " in obs and "info depth" in obs


def session_tie(tags, n_quick=64, n_thorough=6000):
    return {
        "name": "uci-sessions", "group": "huci", "key": "SESSION", "tags": tags,
        "n_quick": n_quick, "n_thorough": n_thorough, "min_per_shard": 4, "timeout": 6000,
        "nontrivial": session_nontrivial, "stat": session_stat,
    }


SESSION_RULE = (" uci-sessions: whole sessions (uci, isready, ucinewgame, stop, unknown and prefixed lines, position "
                "startpos|fen with a legal game of 0..50 plies - 1 in 10 ending in an illegal or unparsable move -, go lines whose "
                "cancellation oracle is fixed by the line: small depth with a far deadline, or a budget that is already negative; "
                "a second go without position; quit) fed line by line to the real handleInput with the real game object, search "
                "goroutine and global tables, each go run to its bestmove; observable: the complete stdout text (time and nps "
                "fields masked, Go error texts cut) against the text the sequential engine model Uci/Engine.v renders; oracle: no "
                "in-domain line panics, one bestmove per accepted go, the answered move is legal in the independently replayed "
                "position (null move only without legal moves), a position command with a legal game is accepted silently; "
                "non-trivial = at least one info line and one bestmove.")
