"""C10: all views of the board stay mutually consistent."""
from .c09 import _game_stat, _game_nontrivial

SPEC = {
    "ties": [{
        "name": "histories", "group": "hpos", "key": "GAME", "tags": ["C10"],
        "n_quick": 5000, "n_thorough": 300000, "min_per_shard": 300,
        "nontrivial": _game_nontrivial, "stat": _game_stat,
    }],
    "rule": "operation histories (regression corpus + seeded random and biased playouts with castling, en passant, promotions, "
            "rook-home captures preferred; null/unnull pairs when not in check; trailing null moves continued by moves) from the "
            "start position and the curated FENs; the WHOLE exported struct (12 bitboards, hash, occupancy sets, square array, "
            "side, rights, en-passant square, both counters) is compared with the model after every operation; the oracle evaluates "
            "the invariant itself on the Go struct with a deliberately naive mailbox-only re-implementation (views agree, one king "
            "each, no back-rank pawns, rights imply home squares, en-passant target behind a just-advanced pawn, side that just moved "
            "not in check); non-trivial = at least two operations; distinct = distinct histories",
    "assumptions": ["start positions satisfy the invariant (New(), or a FEN of a legal position)"],
}
