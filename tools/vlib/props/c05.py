"""C05: every search terminates within its limit, including on finished games."""
from .c04 import search_stat, search_nontrivial


def _p_stat(case, obs):
    f = case.split(" | ")
    return ["kind:" + f[0].split()[1], "impl:" + obs.split()[0]]


SPEC = {
    "ties": [{
        "name": "searches", "group": "hsearch", "key": "SEARCH", "tags": ["C05"],
        "n_quick": 224, "n_thorough": 20000, "min_per_shard": 14, "timeout": 6000,
        "nontrivial": search_nontrivial, "stat": search_stat,
    }, {
        "name": "process-watchdog", "group": "huci", "key": "C05P", "model": False, "tags": ["C05"],
        "n_quick": 24, "n_thorough": 400, "max_shards": 2, "min_per_shard": 12, "timeout": 3000, "stat": _p_stat,
    }, {
        "name": "deep-searches-oracle-only", "group": "hsearch", "key": "SEARCHDEEP", "model": False, "tags": ["C05"],
        "n_quick": 1200, "n_thorough": 60000, "min_per_shard": 40, "timeout": 6000, "search_factor": 2,
        "nontrivial": search_nontrivial, "stat": search_stat,
    }, {
        # "promptly after stop", wherever the stop lands between the reader and the search goroutine: the forced random
        # schedules of C06 (no model involved), read for the clause "every go is answered once its stop has been consumed"
        "name": "stop-at-every-scheduling-point", "group": "huci", "key": "C06", "model": False, "tags": ["C05"],
        "n_quick": 1600, "n_thorough": 30000, "min_per_shard": 50, "timeout": 3000, "search_factor": 2,
    }, {
        # ... and between the scheduling points: the real process with stop written directly behind go (tested, not proved)
        "name": "process-stop-directly-behind-go", "group": "huci", "key": "C06P", "model": False, "tags": ["C05"],
        "n_quick": 24, "n_thorough": 400, "max_shards": 4, "min_per_shard": 6, "timeout": 3000, "search_factor": 1,
    }],
    "rule": "tie 1: the SEARCH cases of C04 (terminal roots included): node and poll counters and every info line are compared with "
            "the extracted model, which fixes where cancellation lands and what runs afterwards (the one fallback search); a search "
            "that does not return within 60 s is reported; the oracle checks that no info line exceeds the requested depth; tie 2 "
            "(tested, not proved): the real engine process with movetime / clock / depth limits and `go infinite` + `stop` on ordinary, "
            "checkmated and stalemated positions must answer within the limit + 1 s (an overrun counts only if it repeats three times); "
            "tie 3: random schedules of reader thread and search goroutine forced through the scheduling points of the real handlers "
            "(the executor of C06): every go whose stop has been consumed must be answered when nothing can move any more; tie 4 (tested): the real "
            "process with the lines of a round written in ONE write (stop directly behind go): answered within 3 s, a failure counts only if "
            "it repeats in three attempts; "
            "distinct = distinct cases",
    "assumptions": ["wall-clock promptness is a property of the runtime and is tested (tie 2), not proved",
                    "termination of a root search is proved for sufficient fuel; fuel sufficiency itself rests on the bounded check-extension hypothesis stated in DESIGN"],
}
