"""C04: the engine always answers with a legal move; every reported PV is legal."""
from ._session import session_tie, SESSION_RULE


def search_stat(case, obs):
    ks = []
    specs = case.split(" ;; ")
    ks.append("searches=%d" % len(specs) if len(specs) < 3 else "searches>=3")
    for sp in specs:
        f = sp.split("|")
        if len(f) == 4:
            ks.append("depth=" + f[2])
            c = int(f[3])
            ks.append("cancel:never" if c < 0 else ("cancel:poll0" if c == 0 else ("cancel:<60" if c < 60 else "cancel:>=60")))
    if "best=0000" in obs:
        ks.append("answer:null-move")
    if " W " in obs:
        ks.append("aspiration re-search")
    return ks


def _segments(go_obs, model_full):
    gs = go_obs.split(" ;; ")
    ms = model_full.split(" ;; ")
    if len(gs) != len(ms):
        return []
    out = []
    for g, m in zip(gs, ms):
        if " ## legal=" not in m or not g.startswith("best="):
            continue
        best = g.split()[0][5:]
        spec = m.split(" ## ", 1)[1]
        legal = spec.split("legal=", 1)[1].split(" mates=")[0]
        mates = spec.split(" mates=", 1)[1] if " mates=" in spec else ""
        out.append((best, [x for x in legal.split(",") if x], [x for x in mates.split(",") if x]))
    return out


def judge_legal(case, go_obs, model_full):
    """C04 judged by the independent FIDE specification (not by the engine's own generator): the answer is one of the
    specification's legal moves of the root, the null move exactly when there is none."""
    for k, (best, legal, _) in enumerate(_segments(go_obs, model_full)):
        if not legal and best != "0000":
            return "[C04] search %d: the FIDE specification has no legal move at the root but the answer is %s" % (k, best)
        if legal and best == "0000":
            return "[C04] search %d: the FIDE specification has legal moves at the root but the answer is the null move" % k
        if legal and best not in legal:
            return "[C04] search %d: the answer %s is not a legal move of the root under the FIDE specification" % (k, best)
    return None


def judge_mate(case, go_obs, model_full):
    """C13 judged by the FIDE specification: when it has a mating move at the root of the last search, the answer is one."""
    segs = _segments(go_obs, model_full)
    if segs:
        best, legal, mates = segs[-1]
        if mates and best not in mates:
            return "[C13] the FIDE specification has the mating moves %s at the root but the answer is %s" % (mates, best)
    return None


def search_nontrivial(case, obs):
    # at least one search produced an info line with a PV
    return " I " in obs.replace("ev: I", " I ")


SPEC = {
    "ties": [{
        "name": "searches", "group": "hsearch", "key": "SEARCH", "tags": ["C04"],
        "n_quick": 224, "n_thorough": 20000, "min_per_shard": 14, "timeout": 6000,
        "nontrivial": search_nontrivial, "stat": search_stat, "judge": judge_legal,
    }, session_tie(["C04"]), {
        # oracle only (no model side): deeper searches than the extracted model can follow
        "name": "deep-searches-oracle-only", "group": "hsearch", "key": "SEARCHDEEP", "model": False, "tags": ["C04"],
        "n_quick": 1200, "n_thorough": 60000, "min_per_shard": 40, "timeout": 6000, "search_factor": 2,
        "nontrivial": search_nontrivial, "stat": search_stat,
    }],
    "rule": "regression corpus (checkmated / stalemated roots, mate-in-one roots, repetition history, warmed tables) + seeded "
            "cases: a game (random or biased legal playout from the start position or a curated FEN) searched at 1-3 successive "
            "points with depth 1-3 (1 in 12: depth 4), each with cancellation never / at poll 0 / at a random poll, all searches of a "
            "case sharing the transposition table and evaluation cache (cleared at case start); the real Search() runs under a "
            "counting context that reports done from a chosen poll on; observable: answer, every info line (depth, score, nodes, "
            "hashfull, PV), aspiration re-search lines, node and poll counters - compared with the extracted search model; the oracle "
            "replays the answer and every PV on the engine's own legal-move generator (itself tied to the FIDE specification by C01): "
            "answer legal, null move only without legal moves, PVs legal from the root, answer = head of the last PV; "
            "non-trivial = at least one info line; distinct = distinct cases. deep-searches-oracle-only: single searches of depth 4-6 from "
            "positions of uniformly random playouts (cancellation never or at a random poll up to 20000), run on the implementation only and "
            "judged by the same oracle (answer legal, every printed PV legal move by move, answer = head of the last PV)." + SESSION_RULE,
    "assumptions": ["root positions satisfy the C10 invariant and the material bounds; 'engine-legal' is FIDE-legal by C01",
                    "the clause 'null move only when no legal move exists' is tested by the oracle; its proof needs score-range reasoning (see DESIGN)"],
}
