"""C12: attack computation is exact."""


def _att_stat(case, obs):
    f = case.split()
    return ["kind:" + f[0]]


def _att_nontrivial(case, obs):
    f = case.split()
    return f[0] in ("r", "b", "q") and f[2] != "0" or f[0] in ("uw", "ub", "n", "k", "pw", "pb", "mr", "mb")


def _moves_nontrivial(case, obs):
    return " chk:" in obs


def _moves_stat(case, obs):
    ks = []
    if " chk:" in obs:
        c = obs.split(" chk:")[1][:2]
        ks.append("side-in-check" if "1" in c else "no-check")
    return ks


SPEC = {
    "ties": [{
        "name": "attack-tables-exhaustive", "group": "hpos", "key": "ATTACKS-ALL", "tags": ["C12"],
        "n_quick": 1, "n_thorough": 1, "max_shards": 1, "min_per_shard": 1,
        "nontrivial": _att_nontrivial, "stat": _att_stat,
    }, {
        "name": "attack-sets-random-occupancies", "group": "hpos", "key": "ATTACKS", "tags": ["C12"],
        "n_quick": 200000, "n_thorough": 10000000, "min_per_shard": 12000,
        "nontrivial": _att_nontrivial, "stat": _att_stat,
    }, {
        "name": "attackers-and-check", "group": "hpos", "key": "MOVES", "tags": ["C12"],
        "n_quick": 3000, "n_thorough": 200000, "min_per_shard": 180,
        "nontrivial": _moves_nontrivial, "stat": _moves_stat,
    }],
    "exhaustive": True,
    "rule": "tie 1 is EXHAUSTIVE over the bits that can matter: rook and bishop AttacksBySquare for every square and every subset "
            "of the relevant occupancy (107,648 lookups), the 128 magic masks, every knight/king/pawn table entry, pawn pushes for "
            "every square with the occupancy patterns of the two squares ahead; tie 2: rook/bishop/queen/pushes on seeded random full "
            "64-bit occupancies of varied density; tie 3: SquareAttackedBy for all 64 squares and IsInCheck for both colours on sampled "
            "positions. Oracle: each value against an independent geometric computation in the harness (ray scan / coordinate "
            "jumps on the mailbox or occupancy set); non-trivial = slider with non-empty occupancy or any leaper/pawn/mask entry; "
            "distinct = distinct (kind, square, occupancy)",
    "assumptions": ["Go's magic lookup is a function of occ & Mask (syntactically), so agreement on all subsets of the mask is agreement "
                    "on all 2^64 occupancies; the masks themselves are compared exhaustively and proved equal to the model's in Coq",
                    "attackers/in-check theorems for positions with well-formed views (implied by the C10 invariant)"],
}
