"""C02: applying a legal move yields exactly the FIDE successor position."""
from .c09 import _game_stat, _game_nontrivial
from .c01 import _stat

SPEC = {
    "ties": [{
        "name": "successors-vs-fide-spec", "group": "hpos", "key": "SPEC", "spec": "C02",
        "n_quick": 6000, "n_thorough": 400000, "min_per_shard": 350, "stat": _stat,
    }, {
        "name": "histories", "group": "hpos", "key": "GAME", "tags": ["C02"],
        "n_quick": 4000, "n_thorough": 200000, "min_per_shard": 250,
        "nontrivial": _game_nontrivial, "stat": _game_stat,
    }],
    "rule": "tie 1: for every legal move of every sampled position (curated FENs + seeded random/biased playouts) the successor's "
            "FEN (placement, side, rights, en-passant target, half-move clock, full-move number) is compared with the extracted FIDE "
            "specification's apply - a difference IS a failing input; tie 2: whole struct after every operation of random histories "
            "against the engine model, and the oracle checks that making a move on a copy leaves the original unchanged (value "
            "semantics); distinct = distinct FENs / histories",
    "assumptions": ["games up to 255 plies and half-move clock below 256 (counter widths); positions satisfying the C10 invariant"],
}
