"""C18: the static exchange evaluation has the sign of the minimax of the capture sequence."""
import re

_ITEM = re.compile(r"^([a-h][1-8][a-h][1-8][nbrq]?)=(-?\d+)$")

# engine PieceValue (GoConsts ev_piece_value): what a capture is worth if nothing recaptures
_VALUES = {"p": 100, "n": 310, "b": 310, "r": 510, "q": 910, "k": 0}


def _items(obs):
    """[(move, value)] of an observable line "e2a6=-810 d5e6=100 ..." (None if it is not such a line)."""
    out = []
    for tok in obs.split():
        m = _ITEM.match(tok)
        if not m:
            return None
        out.append((m.group(1), int(m.group(2))))
    return out


def _board(case):
    """square name -> piece letter from the FEN's placement field."""
    b = {}
    ranks = case.split()[0].split("/")
    if len(ranks) != 8:
        return b
    for ri, row in enumerate(ranks):
        f = 0
        for ch in row:
            if ch.isdigit():
                f += int(ch)
            else:
                b["abcdefgh"[f] + str(8 - ri)] = ch
                f += 1
    return b


def _sign(v):
    return "-" if v < 0 else ("+" if v > 0 else "0")


def _canon_sign(obs):
    """Keep the moves, replace every value by its sign: the property is about the sign only."""
    it = _items(obs)
    if it is None:
        return obs
    return " ".join("%s=%s" % (mv, _sign(v)) for mv, v in it)


def _nontrivial(case, obs):
    # some capture is answered: its value differs from the plain value of the victim, i.e. the target
    # has at least two attackers in total (the capturer and a recapturer) and the exchange went on
    it = _items(obs)
    if not it:
        return False
    b = _board(case)
    for mv, v in it:
        victim = b.get(mv[2:4])
        if victim is not None and v != _VALUES.get(victim.lower(), None):
            return True
    return False


def _stat(case, obs):
    it = _items(obs)
    if it is None:
        return ["observable: " + obs.split()[0] if obs.split() else "observable: empty"]
    n = len(it)
    ks = ["captures=0" if n == 0 else ("captures=1..3" if n <= 3 else ("captures=4..8" if n <= 8 else "captures>8"))]
    for _, v in it:
        ks.append("capture value " + ("negative" if v < 0 else ("positive" if v > 0 else "zero")))
    b = _board(case)
    for mv, v in it:
        victim = b.get(mv[2:4])
        if victim is not None and v != _VALUES.get(victim.lower(), None):
            ks.append("capture answered (value differs from the victim's)")
        mover = b.get(mv[0:2])
        if mover is not None and mover.lower() == "k":
            ks.append("capture by the king")
        if len(mv) == 5:
            ks.append("capturing promotion")
    return ks


SPEC = {
    "ties": [
        {
            # Go's StaticExchangeEvaluation against the extracted model [see]: VALUES, capture by capture
            "name": "see-values", "group": "heval", "key": "SEE", "tags": ["C18"],
            "n_quick": 4000, "n_thorough": 200000, "min_per_shard": 250,
            "nontrivial": _nontrivial, "stat": _stat,
        },
        {
            # Go's StaticExchangeEvaluation against the extracted reference [see_ref] (Eval/SeeRef.v): SIGNS.
            # The reference is the specification: a difference is a failing input of C18.
            "name": "see-sign-vs-reference", "group": "heval", "key": "SEE", "model_key": "SEEREF",
            "tags": ["C18"], "canon": _canon_sign, "spec": "C18",
            "n_quick": 2000, "n_thorough": 100000, "min_per_shard": 250,
            "nontrivial": _nontrivial, "stat": _stat,
        },
    ],
    "rule": "curated FENs (perft suite, edge positions) + eight battery / x-ray / king-as-last-defender positions + "
            "positions with at least one capture sampled from seeded random and biased playouts (10..130 plies) from the "
            "start position, Kiwipete and the curated set; observable: 'move=value' for every legal non-en-passant "
            "capture in generation order; tie 1 compares the values with the extracted model, tie 2 compares their signs "
            "with the extracted reference see_ref (the specification); oracle (Go): sign of Go's value against the sign "
            "of an independent Go mailbox minimax (refCapture) on every legal capture, and no panic; non-trivial = some "
            "capture's value differs from the plain value of its victim (the exchange went on: the target had at least "
            "two attackers in total); distinct = distinct FENs",
    "assumptions": [
        "positions satisfying the C10 invariant (Inv) with at most 16 men a side (MaterialOK); the oracle judges only those",
        "en-passant captures are outside the property (the engine never asks SEE about them: target square empty)",
        "no legality inside the exchange (pins, king onto a defended square) and no promotion upgrade, on both sides of the comparison",
    ],
}
