"""C17: capture generator = capturing moves of the full generator."""


def _stat(case, obs):
    ks = []
    if " C: " in obs or obs.find(" C:") >= 0:
        caps = obs.split(" C:")[1].split(" L:")[0]
        n = 0 if caps.strip() == "" else caps.count(",") + 1
        ks.append("captures=0" if n == 0 else ("captures=1..5" if n <= 5 else "captures>5"))
        kinds = set()
        for m in caps.split(","):
            if m.strip().isdigit():
                kinds.add((int(m) >> 12) & 3)
        if 2 in kinds:
            ks.append("has en-passant capture")
        if 1 in kinds:
            ks.append("has capturing promotion")
    f = case.split()
    if len(f) > 3 and f[3] != "-":
        ks.append("ep target set")
    return ks


def _nontrivial(case, obs):
    # at least one capture is generated
    return " C:" in obs and obs.split(" C:")[1].split(" L:")[0].strip() != ""


SPEC = {
    "ties": [{
        "name": "generators", "group": "hpos", "key": "MOVES", "tags": ["C17"],
        "n_quick": 6000, "n_thorough": 300000, "min_per_shard": 300,
        "nontrivial": _nontrivial, "stat": _stat,
    }],
    "rule": "curated FENs (perft suite, en-passant / promotion / castling edge positions) + positions sampled from seeded "
            "random and biased playouts (special moves preferred) from the start position, Kiwipete and the curated set; "
            "observable: both generators' lists in generation order (plus legal list, check flags, attackers, successors); "
            "oracle: Go's capture list against the capturing moves of Go's full list as multisets; non-trivial = at least "
            "one capture generated; distinct = distinct FENs",
    "assumptions": ["positions satisfying the C10 invariant (Inv); the oracle judges only those"],
}
