"""C14: transposition table (Get / PotentiallySave / Reset / HashFull on the real global table)."""


def _parse_obs(obs):
    """res=<score>:<use>:<move>,... he=.. full=.. buckets=<idx>=<e>|<e>|<e>|<e>,..."""
    f = obs.split(" ")
    if len(f) != 4 or not f[0].startswith("res=") or not f[3].startswith("buckets="):
        return [], []
    res = [r.split(":") for r in f[0][4:].split(",") if r]
    buckets = []
    for b in f[3][8:].split(","):
        if not b:
            continue
        entries = b.split("=", 1)[1].split("|")
        buckets.append([e.split("/")[0] for e in entries])
    return res, buckets


def _c14_nontrivial(case, obs):
    """Well-formed sequence with at least one usable probe and at least one bucket that holds
    two or more distinct (non-zero) hashes at the end."""
    if not case.startswith("W "):
        return False
    res, buckets = _parse_obs(obs)
    usable = any(len(r) == 3 and r[1] == "1" for r in res)
    collide = any(len({h for h in b if h != "0"}) >= 2 for b in buckets)
    return usable and collide


def _c14_stat(case, obs):
    ks = []
    ks.append("stream=well-formed" if case.startswith("W ") else "stream=malformed")
    res, buckets = _parse_obs(obs)
    nuse = sum(1 for r in res if len(r) == 3 and r[1] == "1")
    nhint = sum(1 for r in res if len(r) == 3 and r[1] == "0" and r[2] != "0")
    nmiss = sum(1 for r in res if len(r) == 3 and r[1] == "0" and r[2] == "0")
    ks.append("probes:usable=0" if nuse == 0 else ("probes:usable=1..9" if nuse < 10 else "probes:usable>=10"))
    if nhint:
        ks.append("probes:move-only>=1")
    if nmiss:
        ks.append("probes:miss>=1")
    full = [b for b in buckets if all(h != "0" for h in b)]
    if full:
        ks.append("bucket:full>=1")
    if any(len({h for h in b if h != "0"}) >= 2 for b in buckets):
        ks.append("bucket:>=2 distinct hashes")
    if any(len([h for h in b if h != "0"]) > len({h for h in b if h != "0"}) for b in buckets):
        ks.append("bucket:same hash twice")
    nops = case.count(";") + 1
    ks.append("ops<=12" if nops <= 12 else "ops>12")
    if " R" in case:
        ks.append("has Reset")
    return ks


SPEC = {
    "ties": [{
        "name": "tt-sequences", "group": "hsearch", "key": "C14",
        "n_quick": 3000, "n_thorough": 100000, "min_per_shard": 150,
        "nontrivial": _c14_nontrivial, "stat": _c14_stat,
    }],
    "rule": "regression corpus (duplicate-entry witness, the Coq non-vacuity example, 5 hashes in one bucket, equal "
            "low 32 bits, mate-range ends, node type 3, zero move, zero hash) + seeded random operation sequences "
            "(150..250 ops, 1 in 12 short) of PotentiallySave / Get / Reset on the real global table after "
            "VerifResetAll: hashes b + k*numberOfBuckets for 1..3 bases b (k small, k keeping the low 32 bits, k "
            "maximal, k random) plus fully random ones, some hashes only probed; depths 0..255 (emphasis 1..12), "
            "scores ordinary / mate range / boundary / int16 extremes, node types 0..3, ages 0..255 (emphasis "
            "0..20 and 58..71), windows incl. null, empty and inverted, ply 0..120; 1 in 25 sequences is a malformed "
            "stream (zero hashes, node types 4..255) that is compared with the model but not judged by the oracle. "
            "Observable: every Get result, hashEntries, HashFull, all 4 slots of every bucket touched. A case is "
            "non-trivial when it is well-formed, has >= 1 usable probe and >= 1 bucket holding >= 2 distinct hashes; "
            "distinct = distinct case lines",
    "assumptions": ["non-zero hashes (a zero hash matches an empty slot: Get(0, ..., depth 0, ...) is 'usable' on an empty table)",
                    "stored scores outside the mate range for the 'exact scores as stored' clause "
                    "(inside it the returned score is the ply-adjusted one, stated in the theorem)",
                    "node types are judged by their two low bits, which is all the packed byte keeps"],
}
