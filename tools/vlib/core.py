"""Core of the check orchestrator (see DESIGN.md section 3.2 and 7).

One run of `tools/check Cxx`:
  1. build (under a file lock): Go harness from /repo's working tree with -tags verif,
     regenerate coq/gen/GoConsts.v from the Go build, `make` the property's .vo and the
     extraction, rebuild the OCaml model driver when the extraction changed;
  2. proof obligations: Print Assumptions for every theorem of coq/theories/Props/Cxx.v;
  3. correspondence: generate cases, run the implementation and the extracted model, diff;
  4. the property itself evaluated on the implementation (oracle lines from the harness);
  5. if anything broke: failing-input search, VIOLATION line, replay file;
  6. evidence/Cxx.json.
"""
import fcntl
import hashlib
import json
import os
import re
import shutil
import subprocess
import sys
import time

VERIF = os.path.dirname(os.path.dirname(os.path.dirname(os.path.abspath(__file__))))
REPO = "/repo"
COQ = os.path.join(VERIF, "coq")
WORK = os.path.join(VERIF, "work")
BIN = os.path.join(VERIF, "harness", "bin")
DRIVER = os.path.join(VERIF, "ocaml", "_build", "driver")

GOENV = dict(os.environ, GOFLAGS="-mod=mod", GOPROXY="off", GOSUMDB="off", GOTOOLCHAIN="local",
             CGO_ENABLED="0")

ALLOWED_AXIOMS = {
    # axioms declared by the Coq standard library that this development may depend on;
    # each one that actually shows up is listed in the evidence (DESIGN section 8).
    "functional_extensionality_dep", "FunctionalExtensionality.functional_extensionality_dep",
    "proof_irrelevance", "ProofIrrelevance.proof_irrelevance", "Classical_Prop.classic", "classic",
    "JMeq_eq", "JMeq.JMeq_eq", "Eqdep.Eq_rect_eq.eq_rect_eq", "eq_rect_eq",
}


def sh(cmd, cwd=None, env=None, timeout=None, stdin=None):
    """Run a command, return (rc, stdout+stderr)."""
    try:
        p = subprocess.run(cmd, cwd=cwd, env=env, stdout=subprocess.PIPE, stderr=subprocess.STDOUT,
                           timeout=timeout, input=stdin, text=True, errors="replace")
        return p.returncode, p.stdout
    except subprocess.TimeoutExpired as e:
        out = e.stdout if isinstance(e.stdout, str) else (e.stdout or b"").decode("utf8", "replace")
        return 124, out + "\n[timeout after %ss]" % timeout


class Lock:
    def __init__(self, path):
        self.path = path

    def __enter__(self):
        self.f = open(self.path, "w")
        fcntl.flock(self.f, fcntl.LOCK_EX)
        return self

    def __exit__(self, *a):
        fcntl.flock(self.f, fcntl.LOCK_UN)
        self.f.close()


def file_hash(path):
    try:
        with open(path, "rb") as f:
            return hashlib.sha256(f.read()).hexdigest()
    except FileNotFoundError:
        return None


class BuildResult:
    def __init__(self):
        self.ok = True
        self.step = None      # name of the failing step
        self.log = ""
        self.consts_changed = False
        self.proof_broken = False   # the property's .vo no longer builds
        self.model_broken = False   # extraction / driver no longer builds


def harness_sources_ok():
    go_sum = os.path.join(REPO, "go.sum")
    dst = os.path.join(VERIF, "harness", "go.sum")
    if os.path.exists(go_sum):
        shutil.copyfile(go_sum, dst)


def build(prop_id, groups, log):
    """Build everything property `prop_id` needs. `groups`: harness binaries needed."""
    r = BuildResult()
    os.makedirs(WORK, exist_ok=True)
    os.makedirs(BIN, exist_ok=True)
    with Lock(os.path.join(VERIF, ".build.lock")):
        t0 = time.time()
        harness_sources_ok()
        # 1. Go harness binaries (from /repo's working tree, hooks on)
        for g in sorted(set(groups) | {"dump"}):
            rc, out = sh(["go", "build", "-tags", "verif", "-o", os.path.join(BIN, g), "./cmd/" + g],
                         cwd=os.path.join(VERIF, "harness"), env=GOENV, timeout=600)
            if rc != 0:
                r.ok = False
                r.step = "go build -tags verif ./cmd/%s" % g
                r.log = out[-4000:]
                return r
        log("go harness built in %.1fs" % (time.time() - t0))
        # 2. constants
        t0 = time.time()
        newc = os.path.join(COQ, "gen", "GoConsts.v.new")
        rc, out = sh([os.path.join(BIN, "dump"), newc], timeout=300)
        if rc != 0:
            r.ok = False
            r.step = "dump constants from the Go build"
            r.log = out[-4000:]
            return r
        cur = os.path.join(COQ, "gen", "GoConsts.v")
        if file_hash(newc) != file_hash(cur):
            os.replace(newc, cur)
            r.consts_changed = True
        else:
            os.remove(newc)
        # 3. Coq: model + extraction first, then the property's theorems
        sh([os.path.join(VERIF, "tools", "coqproject.sh")])
        rc, out = sh(["make", "-j16", "extract/Extract.vo"], cwd=COQ, timeout=3000)
        if rc != 0:
            r.ok = False
            r.model_broken = True
            r.step = "make extract/Extract.vo (the executable model no longer compiles)"
            r.log = out[-4000:]
            return r
        rc, out = sh(["make", "-j16", "theories/Props/%s.vo" % prop_id], cwd=COQ, timeout=3000)
        if rc != 0:
            r.ok = False
            r.proof_broken = True
            m = re.findall(r'File "\./([^"]+)", line (\d+)', out)
            where = ("%s line %s" % m[-1]) if m else "?"
            r.step = "make theories/Props/%s.vo: a proof obligation no longer checks (%s)" % (prop_id, where)
            r.log = out[-4000:]
            # keep going: the model may still run, so the failing-input search can use it
        log("coq up to date in %.1fs (consts changed: %s)" % (time.time() - t0, r.consts_changed))
        # 4. OCaml driver
        t0 = time.time()
        od = os.path.join(VERIF, "ocaml")
        ob = os.path.join(od, "_build")
        os.makedirs(ob, exist_ok=True)
        srcs = [os.path.join(COQ, "clemens_model.ml"), os.path.join(COQ, "clemens_model.mli")] + \
            sorted(os.path.join(od, f) for f in os.listdir(od) if f.endswith(".ml") or f.endswith(".sh"))
        stamp = "".join(file_hash(s) or "" for s in srcs)
        stampf = os.path.join(ob, "stamp")
        old = open(stampf).read() if os.path.exists(stampf) else ""
        if old != stamp or not os.path.exists(DRIVER):
            rc, out = sh([os.path.join(od, "build.sh")], timeout=1800)
            if rc != 0:
                r.ok = False
                r.model_broken = True
                r.step = "ocamlopt of the extracted model"
                r.log = out[-4000:]
                return r
            with open(stampf, "w") as f:
                f.write(stamp)
            log("ocaml driver rebuilt in %.1fs" % (time.time() - t0))
    return r


def theorem_names(prop_id):
    """Names of the Theorem/Example statements in Props/Cxx.v."""
    path = os.path.join(COQ, "theories", "Props", prop_id + ".v")
    src = open(path).read()
    src = re.sub(r"\(\*.*?\*\)", "", src, flags=re.S)
    return re.findall(r"^\s*(?:Theorem|Example)\s+([A-Za-z0-9_']+)", src, flags=re.M)


def check_assumptions(prop_id, workdir, log):
    """Print Assumptions for each property theorem, in a fresh coqc against the compiled .vo.
    Returns (list of {name, closed, axioms}), raw output, ok."""
    names = theorem_names(prop_id)
    vfile = os.path.join(workdir, "Assum_%s.v" % prop_id)
    with open(vfile, "w") as f:
        f.write("From Clemens Require Import Props.%s.\n" % prop_id)
        for n in names:
            f.write('Goal True. idtac "@@THEOREM %s". exact I. Qed.\n' % n)
            f.write("Check %s.\n" % n)
            f.write("Print Assumptions %s.\n" % n)
    rc, out = sh(["coqc", "-Q", os.path.join(COQ, "theories"), "Clemens", "-Q", os.path.join(COQ, "gen"),
                  "ClemensGen", vfile], cwd=workdir, timeout=900)
    res = []
    if rc != 0:
        return [{"name": n, "closed": False, "axioms": ["<assumption check failed>"]} for n in names], out, False
    parts = out.split("@@THEOREM ")
    ok = True
    for part in parts[1:]:
        name = part.split()[0]
        body = part[len(name):]
        if "Closed under the global context" in body:
            res.append({"name": name, "closed": True, "axioms": []})
        else:
            axs = re.findall(r"^([A-Za-z_][A-Za-z0-9_.']*)\s*:", body.split("Axioms:")[-1], flags=re.M)
            bad = [a for a in axs if a not in ALLOWED_AXIOMS and a.split(".")[-1] not in ALLOWED_AXIOMS]
            res.append({"name": name, "closed": False, "axioms": axs})
            if bad or not axs:
                ok = False
    if len(res) != len(names):
        ok = False
    return res, out, ok


FORBIDDEN = re.compile(r"\b(Admitted|admit|Axiom|Axioms|Parameter|Parameters|Conjecture|Conjectures|"
                       r"Admit Obligations|Unset Guard Checking|Unset Positivity Checking|"
                       r"Unset Universe Checking|bypass_check|type-in-type|impredicative-set)\b")


def grep_forbidden():
    """No Admitted/Axiom/... anywhere in the development (comments stripped)."""
    hits = []
    for root, dirs, files in os.walk(COQ):
        if os.path.relpath(root, COQ).split(os.sep)[0] == "wip":
            continue      # work in progress, not part of the development (_CoqProject lists theories/, gen/, extract/ only)
        for fn in files:
            if not fn.endswith(".v"):
                continue
            p = os.path.join(root, fn)
            src = open(p, errors="replace").read()
            src = re.sub(r"\(\*.*?\*\)", lambda m: "\n" * m.group(0).count("\n"), src, flags=re.S)
            for i, line in enumerate(src.split("\n"), 1):
                m = FORBIDDEN.search(line)
                if m and not re.search(r"\bVariables?\b|\bHypothes[ie]s\b", line):
                    hits.append("%s:%d: %s" % (os.path.relpath(p, VERIF), i, line.strip()[:120]))
    # Variable/Hypothesis outside a section
    for root, _, files in os.walk(COQ):
        if os.path.relpath(root, COQ).split(os.sep)[0] == "wip":
            continue
        for fn in files:
            if not fn.endswith(".v"):
                continue
            p = os.path.join(root, fn)
            src = open(p, errors="replace").read()
            src = re.sub(r"\(\*.*?\*\)", lambda m: "\n" * m.group(0).count("\n"), src, flags=re.S)
            depth = 0
            for i, line in enumerate(src.split("\n"), 1):
                if re.match(r"\s*Section\s+\w+\s*\.", line):
                    depth += 1
                elif re.match(r"\s*End\s+\w+\s*\.", line) and depth > 0:
                    depth -= 1
                elif depth == 0 and re.match(r"\s*(Variables?|Hypothes[ie]s|Context)\b", line):
                    hits.append("%s:%d: %s outside a section" % (os.path.relpath(p, VERIF), i, line.strip()[:80]))
    return hits


def read_lines(path):
    with open(path, errors="replace") as f:
        s = f.read()
    if s.endswith("\n"):
        s = s[:-1]
    return s.split("\n") if s else []


def load_known_findings():
    """known-findings.txt: lines `known: property=Cxx key=<text> <what fails>` suppress exactly the
    oracle failures whose description contains <text>; `fixed:` lines suppress nothing."""
    res = []
    p = os.path.join(VERIF, "known-findings.txt")
    if os.path.exists(p):
        for line in open(p):
            line = line.strip()
            m = re.match(r"known:\s+property=(C\d+)\s+key=\"([^\"]+)\"\s+(.*)", line)
            if m:
                res.append({"property": m.group(1), "key": m.group(2), "what": m.group(3)})
    return res


# ---------------------------------------------------------------- anchored source drift
ANCHORS_BASELINE = os.path.join(VERIF, "anchors-baseline.json")


def _anchor_files(prop_id):
    import json as _json
    for line in open(os.path.join(VERIF, "properties.jsonl")):
        p = _json.loads(line)
        if p["id"] == prop_id:
            return list(p.get("anchors", {}).get("files", []))
    return []


def _sha(path):
    import hashlib
    try:
        return hashlib.sha256(open(path, "rb").read()).hexdigest()
    except OSError:
        return "<missing>"


def anchor_drift(prop_id):
    """Files the property is anchored in (properties.jsonl) whose content in /repo's working tree differs from
    the committed baseline (anchors-baseline.json, written by tools/anchors at the registered commit).
    Drift is not a violation: it makes the quick tier run a several times larger correspondence sample."""
    import json as _json
    try:
        base = _json.load(open(ANCHORS_BASELINE))
    except OSError:
        return []
    return [f for f in _anchor_files(prop_id) if base.get(f) != _sha(os.path.join(REPO, f))]
