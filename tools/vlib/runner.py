"""Generic run of one property's check: build, obligations, ties, oracle, verdict, evidence."""
import concurrent.futures as cf
import json
import os
import random
import shutil
import time

from . import core

SPEC_SUFFIX = __import__("re").compile(r" ## .*?(?= ;; |$)")
DRIFT_FACTOR = 6   # quick-tier sample multiplier when a file the property is anchored in has changed


def first_diff(a, b, width=160):
    """The part of a around the first position where it differs from b."""
    k = 0
    while k < len(a) and k < len(b) and a[k] == b[k]:
        k += 1
    lo = max(0, k - 40)
    return repr(a[lo:lo + width])


class TieResult:
    def __init__(self, name):
        self.name = name
        self.cases = 0
        self.mismatches = []     # (shard, index, case, go, model)
        self.fails = []          # (shard, index, case, go, verdict)
        self.known = []          # (finding, case, verdict)
        self.nontrivial = set()
        self.samples = []
        self.stats = {}
        self.error = None
        self.wall = 0.0


class Runner:
    def __init__(self, pid, spec, tier, seed):
        self.pid = pid
        self.spec = spec
        self.tier = tier
        self.seed = seed
        self.t0 = time.time()
        self.workdir = os.path.join(core.WORK, pid)
        self.logs = []
        self.known = [k for k in core.load_known_findings() if k["property"] == pid]

    def log(self, msg):
        line = "[%s %6.1fs] %s" % (self.pid, time.time() - self.t0, msg)
        self.logs.append(line)
        print(line, flush=True)

    # ------------------------------------------------------------------ ties
    def run_shard(self, tie, shard, n, seed, corpus=True, cases_override=None):
        d = os.path.join(self.workdir, "%s-%d" % (tie["name"], shard))
        shutil.rmtree(d, ignore_errors=True)
        os.makedirs(d)
        binp = os.path.join(core.BIN, tie["group"])
        if cases_override is not None:
            with open(os.path.join(d, "cases.txt"), "w") as f:
                f.write("".join(c + "\n" for c in cases_override))
        elif tie.get("model_gen"):
            # the cases (e.g. schedules) are enumerated / sampled by the extracted model itself
            req = os.path.join(d, "gen_request.txt")
            with open(req, "w") as f:
                f.write("%d %d %d\n" % (seed % 1000000007, n, shard if corpus else 1))
            rc, out = core.sh([core.DRIVER, tie["model_gen"], req], timeout=tie.get("timeout", 3000))
            if rc != 0 or "MODEL-EXCEPTION" in out:
                return d, "model case generator failed: " + out[-2000:]
            with open(os.path.join(d, "cases.txt"), "w") as f:
                f.write(out if out.endswith("\n") else out + "\n")
        else:
            rc, out = core.sh([binp, "gen", tie["key"], str(seed), str(n), d, str(shard if corpus else 1)],
                              timeout=tie.get("timeout", 3000))
            if rc != 0:
                return d, "generator failed: " + out[-2000:]
        rc, out = core.sh([binp, "run", tie["key"], d], timeout=tie.get("timeout", 3000))
        if rc != 0:
            return d, "harness run failed (rc=%d): %s" % (rc, out[-2000:])
        if tie.get("model", True):
            mc = os.path.join(d, "cases.txt")
            if tie.get("model_case"):
                mc = os.path.join(d, "model_cases.txt")
                with open(mc, "w") as f:
                    for c in core.read_lines(os.path.join(d, "cases.txt")):
                        f.write(tie["model_case"](c) + "\n")
            rc, out = core.sh([core.DRIVER, tie.get("model_key", tie["key"]), mc],
                              timeout=tie.get("timeout", 3000))
            if rc != 0:
                return d, "model driver failed (rc=%d): %s" % (rc, out[-2000:])
            with open(os.path.join(d, "model_obs.txt"), "w") as f:
                f.write(out)
        return d, None

    def collect(self, tie, res, shard, d):
        cases = core.read_lines(os.path.join(d, "cases.txt"))
        gobs = core.read_lines(os.path.join(d, "go_obs.txt"))
        orac = core.read_lines(os.path.join(d, "oracle.txt"))
        has_model = tie.get("model", True)
        mobs = core.read_lines(os.path.join(d, "model_obs.txt")) if has_model else gobs
        if not (len(cases) == len(gobs) == len(orac) == len(mobs)):
            res.error = "line counts differ: cases %d go %d oracle %d model %d" % (
                len(cases), len(gobs), len(orac), len(mobs))
            return
        nt = tie.get("nontrivial")
        canon = tie.get("canon")
        judge = tie.get("judge")
        for i, (c, g, m, o) in enumerate(zip(cases, gobs, mobs, orac)):
            res.cases += 1
            if has_model:
                # a model line may carry, behind " ## ", what the independent FIDE specification says about the case: that part
                # is not compared with the implementation; the tie's judge reads it (spec-based oracle)
                m_full = m
                m = SPEC_SUFFIX.sub("", m)
                if judge:
                    try:
                        extra = judge(c, g, m_full)
                    except Exception as ex:       # a malformed line is a broken correspondence, not a verdict
                        extra = None
                    if extra:
                        o = (o + " ;; " + extra) if o.startswith("FAIL") else ("FAIL " + extra)
                gg, mm = (canon(g), canon(m)) if canon else (g, m)
                if gg != mm:
                    if tie.get("spec"):
                        # the other side is the independent specification: a difference IS a failing input
                        o = "FAIL [%s] implementation differs from the specification: impl %s ... spec %s" % (
                            tie["spec"], first_diff(g, m), first_diff(m, g))
                    else:
                        res.mismatches.append((shard, i, c, g, m))
            tags = tie.get("tags")
            if o.startswith("FAIL") and tags:
                # an oracle line may carry verdicts for several properties: "[Cxx] text ;; [Cyy] text"
                segs = [sg.strip() for sg in o[4:].split(";;")]
                segs = [sg for sg in segs if any(sg.startswith("[%s]" % t) for t in tags)]
                o = ("FAIL " + " ;; ".join(segs)) if segs else "OK"
            if o.startswith("FAIL"):
                k = self.match_known(o, c)
                if k:
                    res.known.append((k, c, o))
                else:
                    res.fails.append((shard, i, c, g, o))
            elif not o.startswith("OK"):
                res.error = "unparseable oracle line %d: %r" % (i, o[:200])
            # the classification callbacks describe the sample; an observable they cannot read (e.g. "panic" where a number
            # is expected, which only a changed implementation prints) must not stop the verdict
            try:
                if nt is None or nt(c, g):
                    res.nontrivial.add(c)
            except Exception:
                pass
            st = tie.get("stat")
            if st:
                try:
                    keys = list(st(c, g))
                except Exception:
                    keys = ["unclassifiable observable"]
                for key in keys:
                    res.stats[key] = res.stats.get(key, 0) + 1
        rnd = random.Random(self.seed * 7919 + shard)
        idx = sorted(set([0, len(cases) // 2, len(cases) - 1] + [rnd.randrange(len(cases)) for _ in range(2)])) if cases else []
        for i in idx[:5]:
            res.samples.append({"case": cases[i][:600], "impl": gobs[i][:600],
                                **({"model": mobs[i][:600]} if has_model else {}), "oracle": orac[i][:200]})

    def match_known(self, verdict, case):
        for k in self.known:
            if k["key"] in verdict or k["key"] in case:
                return k
        return None

    def run_tie(self, tie, n, seed, corpus=True):
        res = TieResult(tie["name"])
        t0 = time.time()
        shards = max(1, min(tie.get("max_shards", 16), n // max(1, tie.get("min_per_shard", 2000))))
        per = (n + shards - 1) // shards
        with cf.ThreadPoolExecutor(max_workers=16) as ex:
            futs = {ex.submit(self.run_shard, tie, s, per, seed * 1000003 + s, corpus): s for s in range(shards)}
            for fu in cf.as_completed(futs):
                s = futs[fu]
                d, err = fu.result()
                if err:
                    res.error = err
                    continue
                self.collect(tie, res, s, d)
        res.wall = time.time() - t0
        return res

    # --------------------------------------------------------------- replay files
    def write_replay(self, kind, payload):
        rd = os.path.join(core.VERIF, "replays")
        os.makedirs(rd, exist_ok=True)
        k = 0
        while True:
            path = os.path.join(rd, "%s-%d-%d.json" % (self.pid, self.seed, k))
            if not os.path.exists(path):
                break
            k += 1
        payload = dict(payload, property=self.pid, kind=kind, seed=self.seed, tier=self.tier,
                       replay_cmd="./tools/check %s --replay %s" % (self.pid, path))
        with open(path, "w") as f:
            json.dump(payload, f, indent=1)
        return path

    # ------------------------------------------------------------------ main
    def run(self):
        os.makedirs(self.workdir, exist_ok=True)
        spec = self.spec
        ties = spec["ties"]
        groups = [t["group"] for t in ties]
        violations = []       # (replay path, failing_input_found)
        broken = []           # descriptions of broken proof/tie/build
        # -- build
        b = core.build(self.pid, groups, self.log)
        if not b.ok and not b.proof_broken:
            path = self.write_replay("build-broken", {"step": b.step, "log": b.log})
            self.log("build step failed: %s" % b.step)
            print(b.log[-1500:])
            self.evidence([], [], [], broken=[b.step], violations=1)
            print("VIOLATION property=%s replay=%s no-failing-input-found" % (self.pid, path))
            return 1
        if b.proof_broken:
            broken.append(b.step)
            self.log("PROOF BROKEN: %s" % b.step)
            print(b.log[-1500:])
        # -- obligations
        forb = core.grep_forbidden()
        if forb:
            broken.append("forbidden vernacular: " + "; ".join(forb[:5]))
        if b.proof_broken:
            names = core.theorem_names(self.pid)
            assum = [{"name": n, "closed": False, "axioms": ["<not checked: .vo did not build>"]} for n in names]
            assum_ok = False
        else:
            assum, raw, assum_ok = core.check_assumptions(self.pid, self.workdir, self.log)
            if not assum_ok:
                broken.append("Print Assumptions reports an unexpected axiom or failed")
                print(raw[-1500:])
        # thorough tier: independent re-check of the property's compiled file and everything it depends on
        self.coqchk = None
        if self.tier == "thorough" and not b.proof_broken:
            t0 = time.time()
            rc, out = core.sh(["coqchk", "-silent", "-o", "-Q", os.path.join(core.COQ, "theories"), "Clemens",
                               "-Q", os.path.join(core.COQ, "gen"), "ClemensGen", "Clemens.Props." + self.pid],
                              cwd=core.COQ, timeout=7200)
            tail = out[out.find("CONTEXT SUMMARY"):] if "CONTEXT SUMMARY" in out else out[-1500:]
            self.coqchk = {"rc": rc, "wall_s": round(time.time() - t0, 1), "summary": tail[:1500]}
            self.log("coqchk: rc=%d in %.0fs" % (rc, time.time() - t0))
            if rc != 0:
                broken.append("coqchk rejects Clemens.Props.%s" % self.pid)
        ndis = sum(1 for a in assum if a["closed"] or (a["axioms"] and not a["axioms"][0].startswith("<")))
        self.log("obligations: %d theorems in Props/%s.v, %d discharged, axioms: %s" % (
            len(assum), self.pid, ndis if assum_ok else 0,
            sorted({x for a in assum for x in a["axioms"]}) or "none"))
        # -- ties
        results = []
        self.drift = core.anchor_drift(self.pid)
        if self.drift:
            self.log("anchored source differs from the baseline (%s): correspondence sample x%d" % (
                ", ".join(self.drift)[:300], DRIFT_FACTOR))
        for tie in ties:
            n = tie["n_thorough"] if self.tier == "thorough" else tie["n_quick"]
            if self.drift and self.tier != "thorough":
                n = min(n * DRIFT_FACTOR, max(n, tie["n_thorough"]))
            res = self.run_tie(tie, n, self.seed)
            results.append(res)
            self.log("tie %s: %d cases, %d distinct non-trivial, %d mismatches, %d oracle failures, %d known (%.1fs)%s" % (
                res.name, res.cases, len(res.nontrivial), len(res.mismatches), len(res.fails), len(res.known),
                res.wall, (" ERROR " + res.error) if res.error else ""))
            if res.error:
                broken.append("tie %s could not run: %s" % (res.name, res.error[:300]))
            if res.mismatches:
                broken.append("correspondence %s broken: %d of %d cases differ" % (res.name, len(res.mismatches), res.cases))
        # -- known findings
        seen_known = {}
        for res in results:
            for k, c, o in res.known:
                seen_known.setdefault(k["key"], (k, c, o))
        for key, (k, c, o) in seen_known.items():
            print("KNOWN-FINDING: property=%s %s [case: %s]" % (self.pid, k["what"], c[:200]))
        # -- verdict
        fails = sorted([(res, f) for res in results for f in res.fails], key=lambda x: (x[1][0], x[1][1]))
        if broken and not fails:
            # failing-input search: the property itself on the implementation, larger fresh sample
            self.log("something broke (%s); searching for a failing input" % "; ".join(broken)[:400])
            for tie, res in zip(ties, results):
                if res.error:
                    continue
                # first the neighbourhood: the mismatching cases themselves were already judged by the oracle
                n = (tie["n_thorough"] if self.tier == "thorough" else tie["n_quick"]) * tie.get("search_factor", 4)
                tie2 = dict(tie, model=False, name=tie["name"] + "-search")
                r2 = self.run_tie(tie2, n, self.seed + 7777, corpus=False)
                self.log("search %s: %d cases, %d oracle failures" % (r2.name, r2.cases, len(r2.fails)))
                fails += [(r2, f) for f in r2.fails]
                if fails:
                    break
        nviol = 0
        if fails:
            res, (shard, i, c, g, o) = fails[0]
            path = self.write_replay("failing-input", {
                "tie": res.name, "case": c, "impl_observable": g, "oracle": o,
                "broken": broken, "other_failures": [f[2][:300] for _, f in fails[1:6]],
                "total_failures": len(fails)})
            print("VIOLATION property=%s replay=%s" % (self.pid, path))
            nviol = len(fails)
        elif broken:
            mm = [(res, m) for res in results for m in res.mismatches]
            payload = {"no_longer_checks": broken}
            if b.proof_broken:
                payload["theorem_file"] = "coq/theories/Props/%s.v" % self.pid
                payload["build_log"] = b.log[-3000:]
            if mm:
                res, (shard, i, c, g, m) = mm[0]
                payload.update({"tie": res.name, "case": c, "impl_observable": g, "model_observable": m,
                                "differing_cases": len(mm)})
            path = self.write_replay("proof-or-correspondence-broken", payload)
            print("VIOLATION property=%s replay=%s no-failing-input-found" % (self.pid, path))
            nviol = 1
        self.evidence(assum if assum_ok else [], assum, results, broken=broken, violations=nviol)
        return 1 if nviol else 0

    # ------------------------------------------------------------------ replay
    def replay(self, path):
        rp = json.load(open(path))
        ties = {t["name"]: t for t in self.spec["ties"]}
        b = core.build(self.pid, [t["group"] for t in self.spec["ties"]], self.log)
        if rp.get("kind") == "build-broken" or "case" not in rp:
            print("replay names a build/proof step: %s" % (rp.get("step") or rp.get("no_longer_checks")))
            print("current build: %s" % ("ok" if b.ok else b.step))
            return 0 if b.ok else 1
        tname = rp["tie"]
        if tname not in ties and tname.endswith("-search"):
            tname = tname[:-len("-search")]
        if tname not in ties:
            print("replay names a tie this property no longer has:", tname)
            return 1
        tie = ties[tname]
        os.makedirs(self.workdir, exist_ok=True)
        d, err = self.run_shard(dict(tie, name=tie["name"] + "-replay"), 0, 1, 0, cases_override=[rp["case"]])
        if err:
            print("replay failed to run:", err)
            return 1
        res = TieResult("replay")
        self.known = []
        self.collect(tie, res, 0, d)
        print("case:   ", rp["case"][:1000])
        for s in res.samples[:1]:
            print("impl:   ", s["impl"])
            if "model" in s:
                print("model:  ", s["model"])
            print("oracle: ", s["oracle"])
        bad = bool(res.fails or res.mismatches or res.error)
        print("replay result: %s" % ("REPRODUCED" if bad else "not reproduced (passes now)"))
        return 1 if bad else 0

    # ------------------------------------------------------------------ evidence
    def evidence(self, assum_ok_list, assum, results, broken, violations):
        spec = self.spec
        os.makedirs(os.path.join(core.VERIF, "evidence"), exist_ok=True)
        nt = sum(len(r.nontrivial) for r in results)
        ev = sum(r.cases for r in results)
        samples = []
        for r in results:
            for s in r.samples[:3]:
                samples.append(dict(s, tie=r.name))
        obligations = len(assum)
        discharged = sum(1 for a in assum_ok_list if a["closed"] or a["axioms"])
        axioms = sorted({x for a in assum for x in a["axioms"] if not x.startswith("<")})
        cov = {
            "obligations": max(obligations, 1),
            "discharged": discharged,
            "theorems": [{"name": a["name"], "assumptions": ("closed under the global context" if a["closed"] else a["axioms"])} for a in assum],
            "checker_cmd": "make -C coq theories/Props/%s.vo (coqc 8.16.1, full .vo) + coqc Print Assumptions on each theorem" % self.pid,
            "trusted_base": spec.get("trusted", []) + [
                "Coq 8.16.1 kernel incl. vm_compute (no native_compute)",
                "axioms reported by Print Assumptions: " + (", ".join(axioms) if axioms else "none (closed under the global context)"),
                "extraction with ExtrOcamlBasic only; OCaml 4.13.1; ocaml/driver.ml + conv.ml",
                "Go harness (harness/cmd/*, build tag verif hooks in /repo) and tools/check (diff, canonicalisation)",
                "harness/cmd/dump + coq/gen/GoConsts.v writer (numbers only)",
            ],
            "evaluations": ev,
            "distinct_nontrivial": nt,
            "rule": spec.get("rule", ""),
            "samples": samples[:8] or [{"note": "no case was run: " + "; ".join(broken)[:300]}],
            "ties": [{"name": r.name, "cases": r.cases, "distinct_nontrivial": len(r.nontrivial),
                      "mismatches": len(r.mismatches), "oracle_failures": len(r.fails),
                      "known_findings_hit": len(r.known), "wall_s": round(r.wall, 1),
                      "distribution": dict(sorted(r.stats.items())), "error": r.error} for r in results],
            "broken": broken,
            "coqchk": getattr(self, "coqchk", None),
            "anchored_source_changed": getattr(self, "drift", []),
            "exhaustive": bool(spec.get("exhaustive", False)),
        }
        doc = {
            "property_id": self.pid,
            "tier": self.tier,
            "seed": self.seed,
            "level": spec.get("level", "proof"),
            "coverage": cov,
            "assumptions": spec.get("assumptions", []),
            "wall_s": round(time.time() - self.t0, 1),
            "violations": violations,
        }
        with open(os.path.join(core.VERIF, "evidence", self.pid + ".json"), "w") as f:
            json.dump(doc, f, indent=1)
        self.log("evidence written (wall %.1fs, violations %d)" % (time.time() - self.t0, violations))
