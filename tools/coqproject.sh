#!/bin/sh
# Regenerate coq/_CoqProject (options + every .v under theories/, gen/, extract/) and the Makefile.
set -e
cd "$(dirname "$0")/../coq"
{
  echo "-Q theories Clemens"
  echo "-Q gen ClemensGen"
  echo "-Q extract ClemensExtract"
  echo "-docroot Clemens"
  echo "-arg -w -arg -notation-overridden,-deprecated-hint-without-locality,-deprecated-instance-without-locality,-extraction-opaque-accessed,-extraction-reserved-identifier"
  find theories gen extract -name '*.v' | LC_ALL=C sort
} > _CoqProject.new
if ! cmp -s _CoqProject.new _CoqProject 2>/dev/null || [ ! -f Makefile ]; then
  mv _CoqProject.new _CoqProject
  coq_makefile -f _CoqProject -o Makefile >/dev/null
else
  rm -f _CoqProject.new
fi
